#!/venv/bin/python
"""Coverage-guided campaign (atheris / libFuzzer) over a property module's Hypothesis strategy.

usage: fuzz_target.py <ID> <stats.json> [corpus dir] [libFuzzer flags: -runs=N -seed=S ...]

libFuzzer mutates the byte string that drives Hypothesis's choices (`test.hypothesis.fuzz_one_input`), with the
cincoconfig package instrumented for coverage feedback. The semantic oracle of the property runs inside the target
and never raises: failed clauses are collected as signatures exactly like in the generation phase, and written to
<stats.json> every 2000 executions (libFuzzer exits without running atexit handlers).
"""
import importlib
import json
import os
import sys

HERE = os.path.dirname(os.path.abspath(__file__))
ROOT = os.path.dirname(HERE)
sys.path.insert(0, ROOT)
sys.path.insert(0, os.path.join(ROOT, ".deps"))
sys.dont_write_bytecode = True


def main():
    prop, stats_path = sys.argv[1], sys.argv[2]
    argv = [sys.argv[0]] + [os.path.abspath(a) if not a.startswith("-") else a for a in sys.argv[3:]]
    import atheris
    from vlib import runner, sandbox

    with atheris.instrument_imports(include=["cincoconfig"]):
        cc = sandbox.setup()
        cc.ConfigFormat.initialize_registry()  # the format modules are imported lazily: pull them in while instrumenting
        import cincoconfig.formats  # noqa: F401
    mod = importlib.import_module("vlib.props.%s" % prop.lower())
    if hasattr(mod, "selftest"):
        mod.selftest()
    import hypothesis
    from hypothesis import given

    stats = runner.Stats()
    state = {"n": 0}

    def flush():
        d = stats.to_json()
        d["fuzz_executions"] = state["n"]
        tmp = stats_path + ".tmp"
        with open(tmp, "w") as fp:
            json.dump(d, fp)
        os.replace(tmp, stats_path)

    @runner._settings(1)
    @given(mod.strategy("thorough"))
    def target(case):
        stats.add(case, runner.execute(mod, case), seed=None)
        state["n"] += 1
        if state["n"] % 2000 == 0:
            flush()

    def one_input(data):
        try:
            target.hypothesis.fuzz_one_input(data)
        except hypothesis.errors.HypothesisException:
            pass
        if state["n"] and state["n"] % 500 == 0:
            flush()

    flush()
    # Seed the corpus: Hypothesis needs a few hundred choice bytes before a whole case exists, and from an empty
    # corpus libFuzzer sees no coverage gradient to grow its inputs. Deterministic pseudo-random seeds of several sizes.
    import hashlib
    corpus_dirs = [a for a in argv[1:] if not a.startswith("-")]
    if corpus_dirs and not os.listdir(corpus_dirs[0]):
        for i, size in enumerate((256, 512, 1024, 2048, 4096, 4096, 8192, 8192)):
            blob = b""
            counter = 0
            while len(blob) < size:
                blob += hashlib.sha256(b"%s-%d-%d" % (prop.encode(), i, counter)).digest()
                counter += 1
            # sprinkle zero runs: small choice values build small, valid structures
            blob = bytes(b if (j // 16) % (i + 2) else 0 for j, b in enumerate(blob[:size]))
            with open(os.path.join(corpus_dirs[0], "seed%d" % i), "wb") as fp:
                fp.write(blob)
    atheris.Setup(argv, one_input)
    atheris.Fuzz()


if __name__ == "__main__":
    main()
