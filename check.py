#!/venv/bin/python
"""Single entry point:  check.py <ID> --tier quick|thorough [--replay FILE]"""
import os
import sys

sys.path.insert(0, os.path.dirname(os.path.abspath(__file__)))
sys.dont_write_bytecode = True

from vlib.runner import main  # noqa: E402

if __name__ == "__main__":
    sys.exit(main())
