"""Verification library for the cincoconfig properties.

Hypothesis quirk (6.168): ``st.fixed_dictionaries`` with four or more keys never yields an example under
``test.hypothesis.fuzz_one_input`` (the byte-string provider used for coverage-guided fuzzing), while the equivalent
``st.tuples(...).map(dict)`` does. All case descriptors here are fixed dictionaries, so the strategy constructor is
replaced by that equivalent form for generation and fuzzing alike.
"""
import hypothesis.strategies as _st

_original_fixed_dictionaries = _st.fixed_dictionaries
_MISSING = object()


def _fixed_dictionaries(mapping, *, optional=None):
    keys = list(mapping)
    values = [mapping[k] for k in keys]
    okeys = list(optional or {})
    ovalues = [_st.one_of(_st.just(_MISSING), optional[k]) for k in okeys]

    def build(t):
        out = dict(zip(keys, t[:len(keys)]))
        for k, v in zip(okeys, t[len(keys):]):
            if v is not _MISSING:
                out[k] = v
        return out
    return _st.tuples(*(values + ovalues)).map(build)


_st.fixed_dictionaries = _fixed_dictionaries
