"""C07 — key files: used verbatim, created once, rejected if malformed, never retained."""
import os

from hypothesis import strategies as st

from .. import aesref, sandbox

ID = "C07"
LEVEL = "exploration"
DESIGN_REF = "DESIGN.md §4 C07"
RULE = (
    "Model-based stateful testing. A case is a history (<= 25 quick / 70 thorough ops) over 2 key-file paths "
    "and a growing pool of KeyFile objects: new-object, enter, exit (only of an open context), encrypt, decrypt "
    "(of an earlier ciphertext), and - only while no context on that path is open - an external change of the "
    "file (absent, valid, other valid key, empty, 1..31 bytes, 33..64 bytes with 16/24/31/33 over-weighted, "
    "uncreatable path). Operands are indices resolved modulo the current state, so every history is "
    "executable. Model: disk[path] and per object (depth, key). Oracle after every op: file bytes == model "
    "(verbatim / never modified / created once with 32 bytes then reused by every later object), a malformed "
    "file makes EVERY enter raise EncryptionError and no encrypt/decrypt ever returns with it, encrypt/decrypt "
    "raise outside a context, the key in use (recovered as XOR ciphertext of 32 zero bytes; AES checked with "
    "the reference cipher) equals the model key for nested contexts and new objects, and after the outermost "
    "exit no attribute of the object contains key bytes. Non-trivial = a failed open followed by another use "
    "of that object, or a file creation followed by a second object/session on that path."
)
ASSUMPTIONS = [
    "the sandbox runs as root, so an unwritable directory cannot be produced; an uncreatable path (parent is a "
    "regular file) stands in for it",
    "KeyFile.generate_key() (explicit regeneration API) is exercised only while no context is open on that path",
]
REQUIRED = ["op:enter", "op:exit", "op:encrypt", "op:decrypt", "op:external", "disk:absent", "disk:valid",
            "disk:malformed", "enter:rejected", "enter:created", "outside-context-use", "exit:by-exception", "op:genkey", "genkey:inside-open-context", "path:home-relative", "path:dotdot-after-symlink", "config:key-file-reassigned"]
LEVEL_TEXT = (
    "Generated histories against an explicit reference model of the key-file life cycle, invariant checked after "
    "every step; shows the property on the explored histories and kills the listed mutants (key kept after "
    "exit, regenerate when the file exists, wrong key size accepted, validation skipped)."
)
LEVEL_NOTE = "Trusted: CPython, Hypothesis, the 40-line model in vlib/props/c07.py, vlib/aesref.py."
TECHNIQUE = "model-based stateful property testing (Hypothesis op-list histories, shrunk as one value)"

ZERO = b"\x00" * 32


def selftest():
    aesref.selftest()


def budget(tier):
    if tier == "quick":
        return {"cases": 1200, "shards": 2}
    return {"cases": 10000, "shards": 16}


def strategy(tier):
    max_ops = 25 if tier == "quick" else 70
    idx = st.integers(0, 7)
    sizes = st.one_of(st.sampled_from([0, 1, 16, 24, 31, 33, 48, 64]), st.integers(0, 64).filter(lambda n: n != 32))
    content = st.one_of(
        st.fixed_dictionaries({"kind": st.just("absent")}),
        st.fixed_dictionaries({"kind": st.just("valid"), "fill": st.integers(0, 255)}),
        st.fixed_dictionaries({"kind": st.just("malformed"), "n": sizes, "fill": st.integers(0, 255)}),
        st.fixed_dictionaries({"kind": st.just("uncreatable")}),
    )
    op = st.one_of(
        st.fixed_dictionaries({"op": st.just("new"), "path": st.integers(0, 1)}),
        st.fixed_dictionaries({"op": st.just("enter"), "obj": idx}),
        st.fixed_dictionaries({"op": st.just("enter"), "obj": idx}),
        st.fixed_dictionaries({"op": st.just("exit"), "obj": idx, "exc": st.sampled_from([False, False, True])}),
        st.fixed_dictionaries({"op": st.just("encrypt"), "obj": idx, "method": st.sampled_from(["xor", "aes", "best"]),
                               "text": st.binary(max_size=40)}),
        st.fixed_dictionaries({"op": st.just("decrypt"), "obj": idx, "ct": idx}),
        st.fixed_dictionaries({"op": st.just("external"), "path": st.integers(0, 1), "content": content}),
        st.fixed_dictionaries({"op": st.just("genkey"), "obj": idx}),
    )
    return st.fixed_dictionaries({
        "init": st.lists(content, min_size=2, max_size=2),
        "home_path": st.booleans(),
        "link_path": st.booleans(),
        "ops": st.lists(op, min_size=1, max_size=max_ops),
    })


class _Obj:
    def __init__(self, real, path):
        self.real = real
        self.path = path
        self.depth = 0
        self.key = None
        self.failed_open = False


def _key_bytes(fill):
    return bytes((fill + 7 * i) % 256 for i in range(32))


def _holds(obj, key, seen=None):
    """Does any attribute of obj (recursively through containers) contain the key bytes?"""
    seen = seen or set()
    if id(obj) in seen:
        return False
    seen.add(id(obj))
    if isinstance(obj, (bytes, bytearray, memoryview)):
        return key in bytes(obj)
    if isinstance(obj, str):
        return False
    if isinstance(obj, dict):
        return any(_holds(k, key, seen) or _holds(v, key, seen) for k, v in obj.items())
    if isinstance(obj, (list, tuple, set, frozenset)):
        return any(_holds(v, key, seen) for v in obj)
    if hasattr(obj, "__dict__") and not isinstance(obj, type):
        return _holds(vars(obj), key, seen)
    return False


def run_case(case, R):
    cc = sandbox._state["cc"]
    from cincoconfig.encryption import EncryptionError

    with sandbox.CaseDir() as d:
        paths = [os.path.join(d, "keys", "k0.key"), os.path.join(d, "keys", "k1.key")]
        os.makedirs(os.path.join(d, "keys"))
        # the name a KeyFile object is given for a path: path 1 may be spelled relative to the home directory ("~/...")
        home_dir = os.path.join(sandbox.home(), "c07-" + os.path.basename(d))
        spelled = {}
        link_real = os.path.join(d, "keys", "store", "k1.key")
        if case.get("home_path"):
            os.makedirs(home_dir, exist_ok=True)
            paths[1] = os.path.join(home_dir, "k1.key")
            spelled[paths[1]] = "~/" + os.path.relpath(paths[1], sandbox.home())
            R.label("path:home-relative")
        elif case.get("link_path"):
            # ".." after a symbolic link to a directory: the operating system resolves keys/current/../k1.key to
            # keys/store/k1.key (current -> store/v2), which is NOT what collapsing the text of the path gives
            os.makedirs(os.path.join(d, "keys", "store", "v2"))
            os.symlink(os.path.join("store", "v2"), os.path.join(d, "keys", "current"))
            paths[1] = link_real
            spelled[paths[1]] = os.path.join(d, "keys", "current", "..", "k1.key")
            R.label("path:dotdot-after-symlink")
        disk = [None, None]  # None absent | bytes | "uncreatable"

        def set_disk(i, content):
            p = paths[i]
            # remove whatever is there
            blocker = os.path.join(d, "keys", "blk%d" % i)
            if os.path.isfile(p):
                os.unlink(p)
            if os.path.isfile(blocker):
                os.unlink(blocker)
            paths[i] = (os.path.join(home_dir, "k1.key") if (i == 1 and case.get("home_path")) else link_real if (i == 1 and case.get("link_path")) else
                        os.path.join(d, "keys", "k%d.key" % i))
            p = paths[i]
            kind = content["kind"]
            R.label("disk:" + kind)
            if kind == "absent":
                disk[i] = None
            elif kind == "valid":
                disk[i] = _key_bytes(content["fill"])
            elif kind == "malformed":
                disk[i] = bytes((content["fill"] + i2) % 256 for i2 in range(content["n"]))
            else:
                # parent "directory" is a regular file: the key file can be neither read nor created
                with open(blocker, "wb") as fp:
                    fp.write(b"x")
                paths[i] = os.path.join(blocker, "k.key")
                disk[i] = "uncreatable"
                return
            if disk[i] is not None:
                with open(p, "wb") as fp:
                    fp.write(disk[i])

        def read_disk(i):
            try:
                with open(paths[i], "rb") as fp:
                    return fp.read()
            except OSError:
                return None

        for i, content in enumerate(case["init"]):
            set_disk(i, content)

        objs = []
        cts = []  # (path index, key, method, plaintext, ciphertext)
        created = [False, False]
        sessions_after_create = [0, 0]

        def check_disk(after):
            for i in (0, 1):
                if disk[i] == "uncreatable":
                    continue
                now = read_disk(i)
                R.check(now == disk[i], "file-modified", after,
                        lambda: "key file %d is %r, model says %r" % (i, now, disk[i]))

        def released(o, after):
            # after the outermost exit (or before any successful enter) no key material is held
            if o.depth == 0:
                for key in [k for k in (disk[o.path],) if isinstance(k, bytes) and len(k) == 32] + ([o.last_key] if getattr(o, "last_key", None) else []):
                    if R.check(not _holds(o.real, key), "released", after,
                               lambda: "KeyFile object holds key material with no open context: %r" % ({k: v for k, v in vars(o.real).items()},)) is False:
                        break

        for op in case["ops"]:
            name = op["op"]
            if name == "new" or not objs:
                pi = op.get("path", 0)
                # the path object is created for the *current* location of that path
                objs.append(_Obj(cc.KeyFile(spelled.get(paths[pi], paths[pi])), pi))
                R.label("op:new")
                if created[pi]:
                    sessions_after_create[pi] += 1
                if name == "new":
                    continue
            if name == "external":
                pi = op["path"]
                if any(o.path == pi and o.depth > 0 for o in objs):
                    continue  # only between sessions
                # objects keep pointing at the same path string; an uncreatable location is a different string,
                # so switching to/from it is only done while no object refers to that path at all
                kind = op["content"]["kind"]
                if (kind == "uncreatable") != (disk[pi] == "uncreatable") and any(o.path == pi for o in objs):
                    continue
                set_disk(pi, op["content"])
                created[pi] = False
                R.label("op:external")
                continue

            o = objs[op["obj"] % len(objs)]
            pi = o.path
            if name == "enter":
                R.label("op:enter")
                if o.failed_open:
                    R.nontrivial = True
                try:
                    o.real.__enter__()
                    err = None
                except Exception as exc:
                    err = exc
                if o.depth > 0:
                    if R.check(err is None, "nested-enter", "enter", "nested enter raised %r" % (err,)):
                        o.depth += 1
                else:
                    content = disk[pi]
                    if content == "uncreatable":
                        R.label("enter:uncreatable")
                        if R.check(err is not None, "uncreatable-accepted", "enter", "enter succeeded although the key file can be neither read nor created"):
                            o.failed_open = True
                        else:
                            o.real.__exit__(None, None, None)
                    elif content is None:
                        R.label("enter:created")
                        if R.check(err is None, "create-failed", "enter", "missing key file: enter raised %r" % (err,)):
                            now = read_disk(pi)
                            if R.check(now is not None and len(now) == 32, "create-once", "enter",
                                       "created key file holds %r" % (now,)):
                                disk[pi] = now
                                o.depth, o.key = 1, now
                                created[pi] = True
                            else:
                                o.real.__exit__(None, None, None)
                    elif len(content) == 32:
                        R.label("enter:valid")
                        if created[pi] and sessions_after_create[pi]:
                            R.nontrivial = True
                        if R.check(err is None, "valid-rejected", "enter", "valid 32-byte key file: enter raised %r" % (err,)):
                            o.depth, o.key = 1, content
                    else:
                        R.label("enter:rejected")
                        ok = R.check(isinstance(err, EncryptionError), "reject-always", "enter:first" if not o.failed_open else "enter:again",
                                     lambda: "key file of %d bytes: enter %s" % (len(content), "returned normally" if err is None else "raised %r" % (err,)))
                        if err is None:
                            # a context is open on a malformed key: no operation may succeed with it
                            try:
                                got = o.real.encrypt(ZERO, method="xor")
                                R.fail("reject-always", "encrypt-with-malformed-key", "encrypt succeeded with a %d-byte key file: %r" % (len(content), got))
                            except Exception:
                                pass
                            o.real.__exit__(None, None, None)
                        o.failed_open = True
                if o.depth > 0:
                    # key in use == model key, shared by nested contexts
                    try:
                        inuse = o.real.encrypt(ZERO, method="xor").ciphertext
                    except Exception as exc:
                        inuse = exc
                    R.check(inuse == o.key, "key-in-use", "enter", lambda: "key in use %r, key file %r" % (inuse, o.key))
                    o.last_key = o.key
            elif name == "exit":
                if o.depth == 0:
                    continue
                R.label("op:exit")
                if op.get("exc"):
                    # the with-block is left by an exception (a caller error, a failed decrypt): same bookkeeping
                    R.label("exit:by-exception")
                    boom = ValueError("error inside the with-block")
                    o.real.__exit__(ValueError, boom, None)
                else:
                    o.real.__exit__(None, None, None)
                o.depth -= 1
                if o.depth == 0:
                    o.key = None
                else:
                    try:
                        inuse = o.real.encrypt(ZERO, method="xor").ciphertext
                    except Exception as exc:
                        inuse = exc
                    R.check(inuse == o.key, "key-in-use", "inner-exit", lambda: "after an inner exit the key in use is %r, not %r" % (inuse, o.key))
            elif name == "genkey":
                # the public regeneration call: writes a new 32-byte key file; it hands no key to the caller and opens no
                # context, so an object without an open context still holds nothing afterwards
                in_session = o.depth > 0
                R.label("op:genkey")
                if in_session:
                    R.label("genkey:inside-open-context")
                    R.nontrivial = True
                try:
                    o.real.generate_key()
                    err = None
                except Exception as exc:
                    err = exc
                if disk[pi] == "uncreatable":
                    R.check(err is not None, "uncreatable-accepted", "genkey", "generate_key succeeded although the key file cannot be created")
                elif R.check(err is None, "create-failed", "genkey", "generate_key raised %r" % (err,)):
                    now = read_disk(pi)
                    if R.check(now is not None and len(now) == 32, "create-once", "genkey", "generate_key left %r in the key file" % (now,)):
                        disk[pi] = now
                        o.last_key = now
                        created[pi] = True
                if in_session:
                    # the context is still open: encryption keeps working in it, with the key the session opened with or
                    # with the new one (which of the two is not stated) - and nested contexts go on sharing that key
                    try:
                        inuse = o.real.encrypt(ZERO, method="xor").ciphertext
                    except Exception as exc:
                        inuse = exc
                    if R.check(inuse in (o.key, disk[pi]), "key-in-use", "genkey:inside-open-context",
                               lambda: "generate_key() inside an open context: encrypt then gives %r (session key %r, new key file %r)" % (inuse, o.key, disk[pi])):
                        o.key = inuse
                    continue
                try:
                    got = o.real.encrypt(ZERO, method="xor")
                    R.fail("context-only", "encrypt-after-genkey", "encrypt outside any open context returned %r right after generate_key()" % (got,))
                except Exception:
                    R.checks += 1
            elif name == "encrypt":
                R.label("op:encrypt")
                try:
                    sv = o.real.encrypt(op["text"], method=op["method"])
                    err = None
                except Exception as exc:
                    sv, err = None, exc
                if o.depth == 0:
                    R.label("outside-context-use")
                    if o.failed_open:
                        R.nontrivial = True
                    bad = isinstance(disk[pi], bytes) and len(disk[pi]) != 32
                    R.check(err is not None, "reject-always" if bad else "context-only", "encrypt",
                            lambda: "encrypt outside any open context returned %r (key file: %s)" % (sv, "malformed" if bad else "ok"))
                else:
                    if R.check(err is None, "encrypt-failed", "encrypt", "encrypt inside a context raised %r" % (err,)):
                        if sv.method == "xor":
                            want = bytes(b ^ o.key[i % 32] for i, b in enumerate(op["text"]))
                            R.check(sv.ciphertext == want, "key-in-use", "encrypt:xor", "xor ciphertext not under the key file's key")
                        else:
                            try:
                                ref = aesref.decrypt(o.key, sv.ciphertext)
                            except ValueError as exc:
                                ref = exc
                            R.check(ref == op["text"], "key-in-use", "encrypt:aes", lambda: "reference AES under the key file's key gives %r" % (ref,))
                        cts.append((pi, o.key, sv.method, op["text"], sv.ciphertext))
            elif name == "decrypt":
                if not cts:
                    continue
                R.label("op:decrypt")
                cpi, ckey, method, text, ct = cts[op["ct"] % len(cts)]
                try:
                    got = o.real.decrypt(cc.fields.SecureValue(method, ct))
                    err = None
                except Exception as exc:
                    got, err = None, exc
                if o.depth == 0:
                    R.label("outside-context-use")
                    bad = isinstance(disk[pi], bytes) and len(disk[pi]) != 32
                    R.check(err is not None, "reject-always" if bad else "context-only", "decrypt",
                            lambda: "decrypt outside any open context returned %r" % (got,))
                elif ckey == o.key:
                    R.check(err is None and got == text, "key-in-use", "decrypt", lambda: "decrypt under the same key gave %r / %r, want %r" % (got, err, text))
                elif method == "aes":
                    R.check(err is not None or got != text, "key-in-use", "decrypt:other-key", "ciphertext of another key decrypted to the plaintext")
            check_disk(name)
            for each in objs:
                released(each, name)

        # "32 random bytes": two key files created after the application re-seeded the process-wide PRNG with the same
        # value must still differ
        import random
        prng_state = random.getstate()
        try:
            made = []
            for n in (0, 1):
                random.seed(20240917)
                fresh_path = os.path.join(d, "keys", "fresh%d.key" % n)
                with cc.KeyFile(fresh_path):
                    pass
                with open(fresh_path, "rb") as fp:
                    made.append(fp.read())
        except Exception as exc:
            made = exc
        finally:
            random.setstate(prng_state)
        R.check(isinstance(made, list) and len(made[0]) == 32 and made[0] != made[1], "create-once", "prng-reseeded",
                lambda: "two key files created after random.seed(k): %r" % (made,))

        # a configuration's key object is re-pointed the library's own way (another key file name is assigned to the
        # configuration): from then on THAT file is the key file - created once if missing, used verbatim
        import base64
        sch = cc.Schema()
        sch.pw = cc.SecureField(method="xor")
        ka, kb = os.path.join(d, "keys", "cfgA.key"), os.path.join(d, "keys", "cfgB.key")
        plain = "re-pointed key object " * 3
        try:
            conf = sch(key_filename=ka)
            conf.pw = plain
            first = conf.to_tree()["pw"]
            conf._key_filename = kb
            second = conf.to_tree()["pw"]
            third = conf.to_tree()["pw"]
            keys = [open(k, "rb").read() if os.path.exists(k) else None for k in (ka, kb)]
        except Exception as exc:
            R.fail("create-failed", "config-repointed", "saving under a re-assigned key file name raised %r" % (exc,))
        else:
            R.label("config:key-file-reassigned")
            ok = all(k is not None and len(k) == 32 for k in keys)
            if R.check(ok, "create-once", "config-repointed", lambda: "after saving under two key file names in turn the files hold %r" % (keys,)):
                def under(stored, key):
                    raw = base64.b64decode(stored["ciphertext"])
                    return bytes(b ^ key[i % 32] for i, b in enumerate(raw)).decode("utf-8", "replace")
                R.check(under(first, keys[0]) == plain, "key-in-use", "config-repointed:first", "the first save does not decrypt under its key file")
                R.check(under(second, keys[1]) == plain and under(third, keys[1]) == plain, "key-in-use", "config-repointed:second",
                        lambda: "after the key file name was re-assigned, the saved secret does not decrypt under the new key file (under the old one: %r)" % (under(second, keys[0])[:30],))

        for o in objs:
            while o.depth > 0:
                o.real.__exit__(None, None, None)
                o.depth -= 1
            o.key = None
            released(o, "final-exit")
        check_disk("end")
