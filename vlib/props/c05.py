"""C05 — field validation is exact and idempotent; the on-disk encoding is invertible."""
import itertools
import os

from hypothesis import strategies as st

from .. import refmodel, sandbox, specs
from ..refmodel import A, REJ, U, value_eq

ID = "C05"
LEVEL = "exploration"
DESIGN_REF = "DESIGN.md §4 C05"
RULE = (
    "A case is (field spec, candidate value): the spec draws one of the 18 built-in field kinds with random "
    "constructor options (bounds, lengths, pattern from a pool of 12, choices, case/strip transforms incl. custom "
    "strip sets, required, prefix lengths 0..32, allow_ipv4, exists/startdir over a fixed sandbox file tree, "
    "encodings, six hash algorithms, item/key/value fields, a custom validator); the value is drawn from "
    "constructed-valid, boundary (min/max +-1, length +-1, prefix +-1, case/padding variants of choices, "
    "case variants of the strip set at the string's edges), constructed-invalid and a pool of wrongly typed "
    "values. The real field is exercised directly (validate / to_basic / to_python with a real Config). Oracle: "
    "accepted <=> the reference validator (vlib/refmodel.py, written from the docs) accepts; the result equals the "
    "reference normal form with the same type; a second call agrees; validate(validate(v)) is accepted and equal; "
    "to_python(to_basic(n)) == n for every accepted n; None rejected <=> required. Finite sub-domains (bool "
    "tokens x case variants, prefix x min x max, port edges, exists-modes x file kinds) are enumerated "
    "exhaustively. Non-trivial = value within distance 1 of a constraint boundary, a non-identity "
    "normalisation, or a container with encoded items."
)
ASSUMPTIONS = [
    "reference validators in vlib/refmodel.py (self-tested at start-up); CPython int()/float(), re, ipaddress, os.path trusted",
    "HostnameField(resolve=True) is never generated (needs DNS)",
    "URL values outside the constructed grammar classes are 'unknown' to the reference (only determinism, "
    "idempotence and the disk law are checked for them); the rate is reported as oracle_unknown",
    "SecureField declares no value constraint: the disk law is checked for non-empty str secrets only",
]
REQUIRED = ["kind:" + k for k in specs.ALL_LEAF_KINDS] + ["ref:accept", "ref:reject", "class:boundary"]
LEVEL_TEXT = (
    "Differential testing of every built-in field against an independent reference validator over generated "
    "(options, value) pairs with boundary-weighted generators plus exhaustive enumeration of the finite "
    "sub-domains; evidence on the explored pairs, kills off-by-one / wrong-order / wrong-type-gate mutants."
)
LEVEL_NOTE = "Trusted: CPython builtins/stdlib, Hypothesis, vlib/refmodel.py (three-valued; abstentions counted)."
TECHNIQUE = "property-based differential testing against a reference validator (Hypothesis) + exhaustive finite sub-domains"
EXHAUSTIVE_NOTE = ("bool tokens x all case variants x 3 paddings; IPv4 network prefix x min x max (quick: stride 4); "
                   "port edges; exists-modes x sandbox file kinds")


def selftest():
    refmodel.selftest()


# thorough tier: coverage-guided campaigns (atheris/libFuzzer over this module's strategy, cincoconfig instrumented)
FUZZ = {"runs": 30000, "campaigns": 4}


def budget(tier):
    if tier == "quick":
        return {"cases": 3000, "shards": 2}
    return {"cases": 30000, "shards": 16}


def strategy(tier):
    def case(sp):
        return st.fixed_dictionaries({"spec": st.just(sp), "value": specs.values(sp)})
    # containers whose items have a non-trivial on-disk form, and string fields with both transforms, are
    # rare under the uniform draw; give them their own branches
    enc_item = specs.leaf_spec(["bytes", "challenge", "secure"], 0, required=False)
    enc_list = enc_item.map(lambda it: {"kind": "list", "req": False, "validator": None, "opts": {}, "item": it})
    enc_dict = st.tuples(specs.leaf_spec(["str"], 0, required=False).map(lambda k: dict(k, opts={}, validator=None)), enc_item).map(
        lambda kv: {"kind": "dict", "req": False, "validator": None, "opts": {}, "keyf": kv[0], "valuef": kv[1]})
    both = st.fixed_dictionaries({
        "kind": st.just("str"), "req": st.booleans(), "validator": st.none(),
        "opts": st.fixed_dictionaries({"transform_case": st.sampled_from(["lower", "upper", "Lower", "UPPER", "LOWER", "Upper"]),
                                       "transform_strip": st.sampled_from(["a", "A", "xy", "Aa", "Z", "ab", "é", "ß"])},
                                      optional={"min_len": st.integers(0, 3), "max_len": st.integers(1, 6)})})
    return st.one_of(specs.leaf_spec().flatmap(case), specs.leaf_spec().flatmap(case), specs.leaf_spec().flatmap(case),
                     enc_list.flatmap(case), enc_dict.flatmap(case), both.flatmap(case))


def exhaustive(tier):
    toks = list(refmodel.TRUE_TOKENS + refmodel.FALSE_TOKENS)
    for tok in toks:
        variants = set("".join(c) for c in itertools.product(*[(ch.lower(), ch.upper()) for ch in tok]))
        for v in sorted(variants):
            for pad in ("%s", " %s", "%s\n"):
                yield {"spec": {"kind": "bool", "req": False, "opts": {}, "validator": None}, "value": pad % v}
    stride = 4 if tier == "quick" else 1
    bounds = [None] + list(range(0, 33, stride)) + ([32] if 32 % stride else [])
    for lo in bounds:
        for hi in bounds:
            if lo is not None and hi is not None and lo > hi:
                continue
            opts = {k: v for k, v in (("min_prefix_len", lo), ("max_prefix_len", hi)) if v is not None}
            for p in range(0, 33, 1 if tier != "quick" else 2):
                yield {"spec": {"kind": "ipv4net", "req": False, "opts": opts, "validator": None}, "value": "0.0.0.0/%d" % p}
    for port in (-1, 0, 1, 2, 65534, 65535, 65536, "0", "1", "65535", "65536", 1.0, 65535.9, 0.9):
        for opts in ({}, {"min": 0}, {"max": 65536}, {"max": 80}):
            yield {"spec": {"kind": "port", "req": False, "opts": opts, "validator": None}, "value": port}
    # number fields whose bounds are not of the field's own number type (IntField(min=0.5), FloatField(max=3)) x values
    # on both sides of and inside the gap between the bound and its conversion
    for kind, bounds, vals in (("int", (0.5, 1.5, -0.5, -1.5, 2.999, float("inf"), float("-inf"), 2), (-2, -1, 0, 1, 2, 3, "1", "0", 1.0, 0.5)),
                               ("float", (1, -1, 2 ** 53 + 1, 0.5, 3), (0.999, 1, 1.0, 1.001, -1.0, -1.001, float(2 ** 53), float(2 ** 53 + 2), 0.5, "1", 3, 3.0000001))):
        for b in bounds:
            for side in ("min", "max"):
                for v in vals:
                    yield {"spec": {"kind": kind, "req": False, "opts": {side: b}, "validator": None}, "value": v}
    # host names with a trailing root dot, dotted quads with one (NOT an address: a name, kept as it is), with and without addresses allowed
    for allow in (False, True):
        for v in ("10.0.0.1.", "10.0.0.1", "host.example.", "host.example", "1.2.3.4..", ".", "a.", "255.255.255.255.", "256.1.1.1", "256.1.1.1.", "1.2.3", "1.2.3."):
            yield {"spec": {"kind": "host", "req": False, "opts": {"allow_ipv4": allow}, "validator": None}, "value": v}
    # boolean tokens are compared in lower case; characters whose case FOLDING (not lower-casing) spells a token are not tokens
    for v in ("o\ufb00", "fal\u017fe", "ye\u017f", "\uff54\uff52\uff55\uff45", "TRUE", "\u0131", "of\uff46", "\u212a", "n\u0307", "ye\u0073\u0323", "\u1e9e", "no\u200b"):
        yield {"spec": {"kind": "bool", "req": False, "opts": {}, "validator": None}, "value": v}
    # URL syntax: a scheme is required (a host alone is not a URL)
    for v in ("//host/path", "//cdn.example.com/lib.js", "//h", "http://h.example/p", "https://h.example:8080/p?q=1", "ftp://h", "example.com", "/path", "://x", "1http://x",
              "//", "///x", "", "h.example/p", "?q=1", "#frag", "http:/", "HTTP://H.EXAMPLE/"):
        yield {"spec": {"kind": "url", "req": False, "opts": {}, "validator": None}, "value": v}
    # NaN and the infinities against every combination of float bounds (NaN is outside ANY declared bound), as floats and as text
    for opts in ({}, {"min": 0.0}, {"max": 10.0}, {"min": 0.0, "max": 10.0}, {"min": float("-inf")}, {"max": float("inf")}, {"min": 0}, {"max": 10}):
        for v in (float("nan"), "nan", "NaN", " nan ", float("inf"), float("-inf"), "inf", "-Infinity", "1e400", -0.0):
            yield {"spec": {"kind": "float", "req": False, "opts": opts, "validator": None}, "value": v}
    for opts in ({"min": 0}, {"max": 10}, {}):
        for v in (float("nan"), "nan", float("inf"), "inf"):
            yield {"spec": {"kind": "int", "req": False, "opts": opts, "validator": None}, "value": v}
    # values of a proper subclass of int / float / str (enum members, unit-carrying floats, tagged strings) are numbers /
    # strings like any other: inside, on and outside the bounds
    for kind, opts in (("int", {"min": 0, "max": 10}), ("int", {}), ("float", {"min": 0.5, "max": 10}), ("float", {}), ("port", {}), ("port", {"max": 80})):
        for raw in ("intenum:5", "intenum:10", "intenum:11", "intenum:0", "intenum:80", "intenum:81", "intenum:70000", "intsub:5", "intsub:-1", "intsub:70000",
                    "floatsub:5.0", "floatsub:0.5", "floatsub:0.25", "floatsub:10.5", "floatsub:80.0", "strsub:5", "strsub:11", "strsub:0.5", "strsub:x", "strsub: 7 "):
            yield {"spec": {"kind": kind, "req": False, "opts": opts, "validator": None}, "value": specs.Opaque(raw)}
    # every spelling of the case option (it is accepted case-insensitively) x cased text x options that look at the result
    for spelling in ("lower", "Lower", "LOWER", "lOwEr", "upper", "Upper", "UPPER", "uPPer"):
        for extra in ({}, {"choices": ["abc", "x"]}, {"choices": ["ABC", "X"]}, {"regex": "^[a-z]+$"}, {"regex": "^[A-Z]+$"}):
            for kind, base in (("str", {}), ("loglevel", {"levels": ["abc", "ABC"]})):
                if kind == "loglevel" and extra:
                    continue
                for v in ("AbC", "abc", "ABC", " x ", "X", "\u00df", ""):
                    yield {"spec": {"kind": kind, "req": False, "opts": dict(base, transform_case=spelling, **extra), "validator": None}, "value": v}
    # required typed containers with a non-empty value (their own result is then emptied in place and offered again)
    leaf = lambda k, **o: {"kind": k, "req": False, "opts": o, "validator": None}
    for item in (leaf("int"), leaf("str"), leaf("bool"), leaf("bytes", encoding="hex"), leaf("port")):
        for n in (1, 2, 3):
            vals = {"int": [1, 2, 3], "str": ["a", "b", "c"], "bool": [True, False, True], "bytes": [b"a", b"b", b"c"], "port": [80, 81, 82]}[item["kind"]][:n]
            yield {"spec": {"kind": "list", "req": True, "opts": {}, "validator": None, "item": item}, "value": vals}
            if item["kind"] != "bytes":
                yield {"spec": {"kind": "dict", "req": True, "opts": {}, "validator": None, "keyf": leaf("str"), "valuef": item}, "value": {"k%d" % i: v for i, v in enumerate(vals)}}
    # string-derived fields with the transforms they inherit: what is judged (address or name, choice, ...) is the TRANSFORMED text
    for allow in (False, True):
        for strip in (True, " '", "\n"):
            for case_opt in (None, "lower"):
                opts = {"allow_ipv4": allow, "transform_strip": strip}
                if case_opt:
                    opts["transform_case"] = case_opt
                for v in (" 10.0.0.1", "10.0.0.1\n", "'192.168.1.1'", "10.0.0.1", " host.example ", "HOST.example\n", "'name'", " 999.1.1.1 ", ""):
                    yield {"spec": {"kind": "host", "req": False, "opts": opts, "validator": None}, "value": v}
    # byte strings of every length up to 130 and a few longer ones (line-wrapping encoders change behaviour at 57 / 76)
    for enc in ("base64", "hex"):
        for n in list(range(0, 131, 1 if tier != "quick" else 3)) + [57, 58, 76, 77, 114, 115, 171, 172, 300, 1000]:
            yield {"spec": {"kind": "bytes", "req": False, "opts": {"encoding": enc}, "validator": None}, "value": bytes((7 * i + n) % 256 for i in range(n))}
    # secrets of every encoded length up to 70 bytes and a few longer ones (keys are 32 bytes, cipher blocks 16), per
    # method, in 1-, 2- and 4-byte characters, on their own and as items / values of typed containers
    lengths = list(range(1, 71, 1 if tier != "quick" else 2)) + [31, 32, 33, 47, 48, 49, 63, 64, 65, 95, 96, 97, 127, 128, 129, 255, 256, 257, 1000]
    for method in ("best", "aes", "xor"):
        sec = {"kind": "secure", "req": False, "opts": {"method": method}, "validator": None}
        for n in lengths:
            for unit in ("s", "\u00e9", "\U0001f511"):
                text = "".join(chr((ord(unit) + i % 7)) for i in range(max(1, n // len(unit.encode()))))
                yield {"spec": sec, "value": text}
        for n in (1, 32, 33, 64, 65, 100):
            text = "".join(chr(97 + i % 26) for i in range(n))
            yield {"spec": {"kind": "list", "req": False, "opts": {}, "validator": None, "item": sec}, "value": [text, "short", text[::-1]]}
            yield {"spec": {"kind": "dict", "req": False, "opts": {}, "validator": None, "keyf": leaf("str"), "valuef": sec}, "value": {"a": text, "b": "short"}}
    for exists in (None, False, True, "dir", "file"):
        for name in specs.FS_NAMES + [""]:
            for startdir in ("$ROOT/fs", "$ROOT/fs/sub"):
                yield {"spec": {"kind": "filename", "req": False, "opts": {"exists": exists, "startdir": startdir}, "validator": None}, "value": name}


def _near_boundary(spec, value):
    o = spec.get("opts", {})
    kind = spec["kind"]
    if kind in ("int", "float", "port") and isinstance(value, (int, float)) and not isinstance(value, bool):
        for b in (o.get("min", 1 if kind == "port" else None), o.get("max", 65535 if kind == "port" else None)):
            if b is not None and value == value and abs(value - b) <= 1:
                return True
    if isinstance(value, str):
        for key in ("min_len", "max_len"):
            if o.get(key) is not None and abs(len(value) - o[key]) <= 1:
                return True
        if kind == "ipv4net" and "/" in value:
            tail = value.rsplit("/", 1)[1]
            if tail.isdigit():
                for b in (o.get("min_prefix_len"), o.get("max_prefix_len")):
                    if b is not None and abs(int(tail) - b) <= 1:
                        return True
    return False


def _impl_eq(a, b):
    """Equality between two implementation results (second call / idempotence)."""
    if type(a).__name__ == "DigestValue" and type(b).__name__ == "DigestValue":
        return a.algorithm is b.algorithm and len(a.salt) == len(b.salt)
    if isinstance(a, (list, tuple)) and isinstance(b, (list, tuple)):
        return type(a) is type(b) and len(a) == len(b) and all(_impl_eq(x, y) for x, y in zip(a, b))
    if isinstance(a, dict) and isinstance(b, dict):
        return type(a) is type(b) and len(a) == len(b) and all(
            any(type(k) is type(k2) and k == k2 and _impl_eq(v, b[k2]) for k2 in b) for k, v in a.items())
    if type(a) is not type(b):
        return False
    if isinstance(a, float):
        return value_eq(a, b)
    return a == b


def _disk_ok(spec, value):
    """Is this accepted normal form in the domain of the on-disk law?"""
    kind = spec["kind"]
    if value is None:
        # unset has no on-disk form of its own (an unset typed list/dict may come back empty: C02)
        return False
    if kind == "secure":
        return isinstance(value, str) and value != "" and _encodable(value)
    if kind == "any":
        return True
    if kind == "list":
        item = spec.get("item")
        if item is None:
            return True
        return all(_disk_ok(item, v) for v in value)
    if kind == "dict":
        kf, vf = spec.get("keyf"), spec.get("valuef")
        return all((kf is None or _disk_ok(kf, k)) and (vf is None or _disk_ok(vf, v)) for k, v in value.items())
    return True


def _encodable(s):
    try:
        s.encode()
        return True
    except UnicodeEncodeError:
        return False


def run_case(case, R):
    cc = sandbox._state["cc"]
    spec = case["spec"]
    kind = spec["kind"]
    ctx = specs.ref_ctx()
    value = specs.realize(case["value"])
    R.label("kind:" + kind)

    with sandbox.CaseDir() as d:
        field = specs.build_field(cc, spec)
        schema = cc.Schema()
        schema.f = field
        keyfile = os.path.join(d, "key")
        cfg = schema(key_filename=keyfile)

        verdict = refmodel.ref(spec, value, ctx)
        try:
            got = field.validate(cfg, value)
            accepted = True
        except Exception as exc:  # any exception is a rejection here; its *type* is C15's business
            got, accepted = exc, False

        if _near_boundary(spec, value):
            R.label("class:boundary")
            R.nontrivial = True

        if verdict[0] == U:
            R.unknown += 1
            R.label("ref:unknown")
        elif verdict[0] == A:
            R.label("ref:accept")
            if R.check(accepted, "exact", kind + ":rejected-valid",
                       lambda: "%s%r rejects %r (%r) although it meets every declared constraint" % (kind, spec.get("opts"), value, got)):
                R.check(value_eq(got, verdict[1]), "normal", kind,
                        lambda: "%s%r.validate(%r) = %r (%s), reference normal form %r (%s)" % (
                            kind, spec.get("opts"), value, got, type(got).__name__, verdict[1], type(verdict[1]).__name__))
                if not value_eq(value, verdict[1]) or type(value) is not type(verdict[1]):
                    R.nontrivial = True
                    R.label("class:normalised")
        else:
            R.label("ref:reject")
            R.check(not accepted, "exact", kind + ":accepted-invalid",
                    lambda: "%s%r accepts %r -> %r although: %s" % (kind, spec.get("opts"), value, got, verdict[1]))

        if not accepted:
            # rejection must be repeatable
            try:
                field.validate(cfg, value)
                R.fail("deterministic", kind + ":reject-then-accept", "second validate(%r) accepted" % (value,))
            except Exception:
                R.checks += 1
            return

        # deterministic
        try:
            again = field.validate(cfg, value)
            R.check(_impl_eq(got, again), "deterministic", kind, lambda: "validate(%r) gave %r then %r" % (value, got, again))
        except Exception as exc:
            R.fail("deterministic", kind + ":accept-then-reject", "second validate(%r) raised %r" % (value, exc))
        if type(got).__name__ == "DigestValue" and isinstance(value, (str, bytes)):
            R.check(got.salt != again.salt, "deterministic", "challenge:fresh-salt", "same salt twice")

        # idempotent
        try:
            twice = field.validate(cfg, got)
            R.check(_impl_eq(got, twice) and (type(got).__name__ != "DigestValue" or got == twice), "idempotent", kind,
                    lambda: "%s%r: validate(%r) = %r but validating that again gives %r" % (kind, spec.get("opts"), value, got, twice))
        except Exception as exc:
            R.fail("idempotent", kind + ":rejects-own-result", "%s%r: validate(%r) = %r, which is then rejected: %r" % (kind, spec.get("opts"), value, got, exc))

        # on-disk law
        if _disk_ok(spec, got):
            try:
                basic = field.to_basic(cfg, got)
                back = field.to_python(cfg, basic)
            except Exception as exc:
                R.fail("disk", kind + ":raises", "%s: to_python(to_basic(%r)) raised %r" % (kind, got, exc))
            else:
                if kind in ("list", "dict") and (spec.get("item") or spec.get("valuef") or spec.get("keyf")):
                    R.label("class:typed-container")
                    sub = spec.get("item") or spec.get("valuef")
                    if sub and sub["kind"] in ("bytes", "challenge", "secure") and got:
                        R.nontrivial = True
                        R.label("class:encoded-items")
                same = _impl_eq(got, back) and _disk_exact(got, back)
                if not same and kind in ("list", "any") and isinstance(got, tuple) and isinstance(back, list):
                    same = _impl_eq(list(got), back)  # an untyped list keeps a tuple in memory; disk has lists only
                R.check(same, "disk", kind + (":" + (spec.get("item") or spec.get("valuef") or {}).get("kind", "") if kind in ("list", "dict") else ""),
                        lambda: "%s%r: %r -> on disk %r -> back %r" % (kind, spec.get("opts"), got, basic, back))
                # the value read back is itself accepted and normal
                try:
                    re_val = field.validate(cfg, back)
                    R.check(_impl_eq(back, re_val) and _disk_exact(back, re_val), "disk", kind + ":reload-not-normal",
                            lambda: "%s: value read back %r re-validates to %r" % (kind, back, re_val))
                except Exception as exc:
                    R.fail("disk", kind + ":reload-rejected", "%s: value read back from disk %r is rejected: %r" % (kind, back, exc))


        # exactness does not depend on where a value comes from: the field's OWN earlier result, emptied in place, is an
        # empty container like any other and a required field rejects it
        if kind in ("list", "dict") and spec.get("req") and isinstance(got, (cc.ListProxy, cc.DictProxy)) and len(got):
            got.clear()
            R.label("class:own-result-emptied")
            try:
                out = field.validate(cfg, got)
                R.fail("exact", kind + ":accepted-invalid:own-result-emptied", "%s%r (required) accepts its own earlier result after it was emptied in place: %r" % (kind, spec.get("opts"), out))
            except Exception:
                R.checks += 1


def _disk_exact(a, b):
    """Digest values must survive byte for byte."""
    if type(a).__name__ == "DigestValue":
        return type(b).__name__ == "DigestValue" and a.salt == b.salt and a.digest == b.digest
    if isinstance(a, (list, tuple)) and isinstance(b, (list, tuple)):
        return len(a) == len(b) and all(_disk_exact(x, y) for x, y in zip(a, b))
    if isinstance(a, dict) and isinstance(b, dict):
        return all(_disk_exact(v, b[k]) for k, v in a.items() if k in b)
    return True
