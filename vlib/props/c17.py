"""C17 — typed list/dict values behave like built-in list/dict of validated items."""
import math

from hypothesis import strategies as st

from .. import sandbox
from ..trees import tree_eq

ID = "C17"
LEVEL = "exploration"
DESIGN_REF = "DESIGN.md §4 C17"
RULE = (
    "Lock-step differential, model-based: a case picks an item (or key/value) field kind (int normalising "
    "'5'->5, upper+strip string, bool tokens, bytes, nested item schema) and an op sequence (<= 30 quick / 90 "
    "thorough) over every operation the statement lists - list: append, insert, extend, index and slice "
    "assignment (incl. extended slices, negative / out-of-range / __index__ indices) from list, tuple, iterator, "
    "generator, a typed list of the same field, of another field, itself; +=, +, *, *=, copy, pop, remove, del, "
    "sort, reverse, clear, queries; dict: item assignment, update(dict | pairs | iterator | typed dict | kwargs | "
    "both), setdefault, |=, pop, popitem, del, clear, copy, queries. Arguments are acceptable ones (what the "
    "built-in accepts and whose items the field accepts). The same op is applied to the proxy and to a built-in "
    "list/dict holding the reference-normalised items; after every op contents (strictly typed, ordered), length "
    "and the return value or raised exception type must agree; results of copy/+/+= must still be proxies of the "
    "same field and reject an invalid item. Non-trivial = the sequence has a slice assignment or "
    "update/|=/setdefault AND an iterator/generator/typed-container argument."
)
ASSUMPTIONS = [
    "reference normalisers for the five item kinds are written from the field docs (int(): CPython int(); "
    "bool token tables; str.strip().upper(); str->UTF-8)",
    "dict.setdefault(key) in its one-argument form is not exercised (the typed API requires a value)",
]
REQUIRED = ["list", "dict", "arg:iterator", "arg:generator", "arg:same-proxy", "arg:other-proxy", "arg:sameclass-proxy", "arg:self",
            "op:setslice", "op:update", "op:ior", "op:setdefault", "op:iadd", "op:add", "op:copy", "op:sort"]
LEVEL_TEXT = (
    "Generated operation histories run in lock-step against the built-in container (the specification the "
    "property names); a disagreement in contents, order, return value or exception type is a violation. Holds on "
    "the explored histories only; kills mutants in every overridden mutator."
)
LEVEL_NOTE = "Trusted: CPython list/dict semantics, Hypothesis, the small per-kind reference normalisers."
TECHNIQUE = "model-based differential property testing against built-in list/dict (Hypothesis op-list histories)"

KINDS = ["int", "str", "bool", "bytes"]


class Idx:
    """An index object that is not an int but supports __index__ (like numpy integers)."""

    def __init__(self, i):
        self.i = i

    def __index__(self):
        return self.i


def norm(kind, v):
    """Reference normal form; raises ValueError for an unacceptable value."""
    if v is None:
        return None
    if kind == "int":
        if isinstance(v, bool) or not isinstance(v, (int, float, str)):
            raise ValueError("type")
        try:
            return int(v)
        except (ValueError, TypeError, OverflowError):
            raise ValueError("int")
    if kind == "str":
        if not isinstance(v, str):
            raise ValueError("type")
        return v.strip().upper()
    if kind == "bool":
        if isinstance(v, bool):
            return v
        if isinstance(v, (int, float)):
            return bool(v)
        if isinstance(v, str):
            if v.lower() in ("t", "true", "1", "on", "yes", "y"):
                return True
            if v.lower() in ("f", "false", "0", "off", "no", "n"):
                return False
        raise ValueError("bool")
    if kind == "bytes":
        if isinstance(v, str):
            return v.encode()
        if isinstance(v, bytes):
            return v
        raise ValueError("bytes")
    raise AssertionError(kind)


def _value(kind):
    if kind == "int":
        return st.one_of(st.integers(-5, 12), st.integers(-5, 12).map(str), st.sampled_from([" 7 ", "+4", "1_0", "-0", "0012"]),
                         st.sampled_from([5.0, 2.7, -1.5, 0.0]), st.integers(-2 ** 65, 2 ** 65))
    if kind == "str":
        return st.one_of(st.sampled_from(["a", "B", " c ", "dd", "\tE\n", "", "ß", "a b"]), st.text(max_size=4))
    if kind == "bool":
        return st.one_of(st.booleans(), st.sampled_from(["yes", "OFF", "True", "n", "1", "0", 0, 1, 2.5, 0.0]))
    if kind == "bytes":
        return st.one_of(st.binary(max_size=3), st.sampled_from(["a", "é", ""]))
    raise AssertionError(kind)


INVALID = {"int": ["abc", [1], True, "1.5", "", b"1"], "str": [5, b"x", ["a"], 1.5], "bool": ["maybe", [], b"1", ""],
           "bytes": [5, 1.5, ["a"], True]}


def _items(kind, max_size=4):
    return st.lists(_value(kind), max_size=max_size)


def _index():
    return st.one_of(st.integers(-6, 6), st.integers(-6, 6), st.sampled_from([-100, 100]))


def _slice():
    bound = st.one_of(st.none(), st.integers(-6, 6))
    return st.tuples(bound, bound, st.one_of(st.none(), st.none(), st.sampled_from([1, 2, -1, -2, 3])))


ITERKINDS = ["list", "tuple", "iterator", "generator", "same-proxy", "other-proxy", "sameclass-proxy", "self"]


def _list_op(kind):
    items = _items(kind)
    ik = st.sampled_from(ITERKINDS)
    v = _value(kind)
    d = st.fixed_dictionaries
    j = st.just
    ops = [
        d({"op": j("append"), "v": v}),
        d({"op": j("insert"), "i": _index(), "v": v}),
        d({"op": j("extend"), "items": items, "ik": ik}),
        d({"op": j("setitem"), "i": _index(), "v": v, "objidx": st.booleans()}),
        d({"op": j("setslice"), "s": _slice(), "items": items, "ik": ik}),
        d({"op": j("setslice"), "s": _slice(), "items": items, "ik": ik}),
        d({"op": j("iadd"), "items": items, "ik": ik}),
        d({"op": j("add"), "items": items, "ik": ik, "keep": st.booleans()}),
        d({"op": j("mul"), "n": st.integers(-1, 3)}),
        d({"op": j("imul"), "n": st.integers(0, 2)}),
        d({"op": j("copy"), "keep": st.booleans()}),
        d({"op": j("pop"), "i": st.one_of(st.none(), _index())}),
        d({"op": j("remove"), "v": v}),
        d({"op": j("delitem"), "i": _index(), "objidx": st.booleans()}),
        d({"op": j("delslice"), "s": _slice()}),
        d({"op": j("sort"), "reverse": st.booleans()}),
        d({"op": j("reverse")}),
        d({"op": j("clear")}),
        d({"op": j("query"), "i": _index(), "s": _slice(), "v": v}),
        d({"op": j("reassign"), "items": items, "ik": st.sampled_from(["list", "tuple", "same-proxy", "other-proxy", "sameclass-proxy", "self"])}),
    ]
    return st.one_of(*ops)


def _dict_op(kkind, vkind):
    k = _value(kkind)
    v = _value(vkind)
    pairs = st.lists(st.tuples(k, v), max_size=3)
    kw = st.dictionaries(st.sampled_from(["a", "b", "cc", "d_1"]), v, max_size=2)
    dk = st.sampled_from(["dict", "pairs", "tuple", "iterator", "generator", "same-proxy", "other-proxy", "sameclass-proxy", "self"])
    d = st.fixed_dictionaries
    j = st.just
    ops = [
        d({"op": j("setitem"), "k": k, "v": v}),
        d({"op": j("update"), "pairs": pairs, "dk": dk, "kw": st.one_of(st.just({}), kw)}),
        d({"op": j("update"), "pairs": pairs, "dk": dk, "kw": st.one_of(st.just({}), kw)}),
        d({"op": j("update-kw"), "kw": kw}),
        d({"op": j("setdefault"), "k": k, "v": v}),
        d({"op": j("ior"), "pairs": pairs, "dk": st.sampled_from(["dict", "pairs", "same-proxy", "other-proxy", "self"])}),
        d({"op": j("pop"), "k": k, "default": st.one_of(st.just("<none>"), v)}),
        d({"op": j("popitem")}),
        d({"op": j("delitem"), "k": k}),
        d({"op": j("clear")}),
        d({"op": j("copy"), "keep": st.booleans()}),
        d({"op": j("query"), "k": k}),
        d({"op": j("reassign"), "pairs": pairs, "dk": st.sampled_from(["dict", "same-proxy", "other-proxy", "self"])}),
    ]
    return st.one_of(*ops)


def strategy(tier):
    n = 30 if tier == "quick" else 90

    def list_case(kind):
        return st.fixed_dictionaries({"kind": st.just("list"), "item": st.just(kind), "init": _items(kind),
                                      "ops": st.lists(_list_op(kind), min_size=1, max_size=n)})

    def dict_case(kinds):
        kk, vk = kinds
        return st.fixed_dictionaries({"kind": st.just("dict"), "key": st.just(kk), "value": st.just(vk),
                                      "init": st.lists(st.tuples(_value(kk), _value(vk)), max_size=3),
                                      "ops": st.lists(_dict_op(kk, vk), min_size=1, max_size=n)})

    schema_op = st.one_of(
        st.fixed_dictionaries({"op": st.just("append"), "v": st.integers(0, 9), "as": st.sampled_from(["dict", "config"])}),
        st.fixed_dictionaries({"op": st.just("insert"), "i": _index(), "v": st.integers(0, 9), "as": st.sampled_from(["dict", "config"])}),
        st.fixed_dictionaries({"op": st.just("extend"), "vs": st.lists(st.integers(0, 9), max_size=3), "ik": st.sampled_from(["list", "tuple", "iterator", "generator"])}),
        st.fixed_dictionaries({"op": st.just("setitem"), "i": _index(), "v": st.integers(0, 9)}),
        st.fixed_dictionaries({"op": st.just("setslice"), "s": _slice(), "vs": st.lists(st.integers(0, 9), max_size=3), "ik": st.sampled_from(["list", "tuple", "iterator"])}),
        st.fixed_dictionaries({"op": st.just("pop"), "i": st.one_of(st.none(), _index())}),
        st.fixed_dictionaries({"op": st.just("delitem"), "i": _index()}),
        st.fixed_dictionaries({"op": st.just("reverse")}),
        st.fixed_dictionaries({"op": st.just("copy")}),
        st.fixed_dictionaries({"op": st.just("clear")}),
        # look-ups by value: an equal configuration that is not a member, or the member at some index (maybe with an equal
        # twin before it) - judged against a built-in list holding the very same item objects
        st.fixed_dictionaries({"op": st.just("lookup"), "what": st.sampled_from(["remove", "remove", "index", "count", "contains"]),
                               "arg": st.sampled_from(["twin", "member"]), "v": st.integers(0, 3), "j": st.integers(0, 5)}),
        st.fixed_dictionaries({"op": st.just("lookup"), "what": st.sampled_from(["remove", "remove", "index", "count", "contains"]),
                               "arg": st.sampled_from(["twin", "member"]), "v": st.integers(0, 3), "j": st.integers(0, 5)}),
    )
    schema_case = st.fixed_dictionaries({"kind": st.just("schemalist"), "configtype": st.booleans(),
                                         "ops": st.lists(schema_op, min_size=1, max_size=n)})
    return st.one_of(
        st.sampled_from(KINDS).flatmap(list_case), st.sampled_from(KINDS).flatmap(list_case),
        st.sampled_from([("str", "int"), ("str", "bool"), ("int", "str"), ("str", "bytes"), ("bytes", "int")]).flatmap(dict_case),
        schema_case,
    )


# thorough tier: coverage-guided campaigns (atheris/libFuzzer over this module's strategy, cincoconfig instrumented)
FUZZ = {"runs": 15000, "campaigns": 4}


def exhaustive(tier):
    """Every index form on every list length 0..4 (insert / setitem / delitem / pop), and every slice over a small grid with
    right-hand sides of several lengths (setslice / delslice): one operation per case, lock-step with the built-in list."""
    idx = list(range(-7, 8)) + [-100, 100]
    for n in range(0, 5):
        init = list(range(n))
        for i in idx:
            for op in ({"op": "insert", "i": i, "v": 9}, {"op": "setitem", "i": i, "v": 9, "objidx": False}, {"op": "delitem", "i": i, "objidx": False},
                       {"op": "pop", "i": i}, {"op": "setitem", "i": i, "v": 9, "objidx": True}):
                yield {"kind": "list", "item": "int", "init": init, "ops": [op]}
        bounds = [None, -6, -3, -1, 0, 1, 2, 4, 6] if tier == "quick" else [None] + list(range(-6, 7))
        for a in bounds:
            for b in bounds:
                for step in (None, 1, 2, -1, -2):
                    yield {"kind": "list", "item": "int", "init": init, "ops": [{"op": "delslice", "s": (a, b, step)}]}
                    size = len(range(*slice(a, b, step).indices(n)))
                    for k in sorted({0, 1, size, size + 1}):
                        yield {"kind": "list", "item": "int", "init": init, "ops": [{"op": "setslice", "s": (a, b, step), "items": list(range(50, 50 + k)), "ik": "list"}]}
    yield from exhaustive_lookups()
    yield from exhaustive_equivalent_keys(tier)
    yield from exhaustive_nested_values()
    # queries with raw spellings of stored items (and of absent ones), per normalising item field
    for item, stored, probes in (("int", [80, 443, 80], ["80", " 80", 80.0, "443", "81", True, "x"]), ("str", ["ALICE", "BOB"], ["alice", " ALICE ", "Alice", "bob\n", "carol"]),
                                 ("bool", [True, False], ["true", "yes", "0", 1, 0, "x"])):
        for v in probes:
            yield {"kind": "list", "item": item, "init": list(stored), "ops": [{"op": "query", "i": 0, "s": (None, None, None), "v": v}]}


def exhaustive_equivalent_keys(tier):
    """Typed dicts whose key field normalises: every sequence of 2-3 pairs over differently spelled but equivalent keys,
    handed over in every call form (the LAST pair for a normalised key wins, as in dict.update over the normalised pairs)."""
    import itertools
    for (kk, vk), spellings, vals in ((("str", "int"), ["a", "A", " a", "b"], [1, 2, 3]), (("int", "str"), [7, "7", "07", 8], ["x", "y", "z"])):
        for n in (2, 3):
            for keys in itertools.product(spellings, repeat=n):
                if len(set(map(str, keys))) == n and tier == "quick" and n == 3 and keys[0] == keys[-1]:
                    continue
                pairs = [(k, vals[i]) for i, k in enumerate(keys)]
                for dk in ("pairs", "tuple", "iterator", "generator", "dict"):
                    for init in ([], [(spellings[1], vals[0])]):
                        yield {"kind": "dict", "key": kk, "value": vk, "init": init, "ops": [{"op": "update", "pairs": pairs, "dk": dk, "kw": {}}]}
                for dk in ("pairs", "dict"):
                    yield {"kind": "dict", "key": kk, "value": vk, "init": [], "ops": [{"op": "ior", "pairs": pairs, "dk": dk}]}


def exhaustive_lookups():
    """Lists of configurations [0, 1, 0, 2] (two equal items): every look-up by value with an equal non-member / a member."""
    fill = [{"op": "append", "v": v, "as": how} for v, how in ((0, "dict"), (1, "config"), (0, "config"), (2, "dict"))]
    for ct in (False, True):
        for what in ("remove", "index", "count", "contains"):
            for v in (0, 1, 3):
                yield {"kind": "schemalist", "configtype": ct, "ops": fill + [{"op": "lookup", "what": what, "arg": "twin", "v": v, "j": 0}]}
            for j in range(4):
                yield {"kind": "schemalist", "configtype": ct, "ops": fill + [{"op": "lookup", "what": what, "arg": "member", "v": 0, "j": j}]}


def budget(tier):
    if tier == "quick":
        return {"cases": 1200, "shards": 2}
    return {"cases": 10000, "shards": 16}


# ------------------------------------------------------------------------------------------------


def _field(cc, kind):
    if kind == "int":
        return cc.IntField()
    if kind == "str":
        return cc.StringField(transform_case="upper", transform_strip=True)
    if kind == "bool":
        return cc.BoolField()
    if kind == "bytes":
        return cc.BytesField()
    raise AssertionError(kind)


def _outcome(fn):
    try:
        return ("ok", fn())
    except Exception as exc:  # compared by type below
        return ("exc", type(exc))


def _same_outcome(a, b):
    if a[0] != b[0]:
        return False
    if a[0] == "exc":
        return a[1] is b[1] or (issubclass(a[1], b[1]) and b[1] in (ValueError, IndexError, KeyError, TypeError))
    return _val_eq(a[1], b[1])


def _plain(x):
    if isinstance(x, dict):
        return {k: _plain(v) for k, v in x.items()}
    if isinstance(x, (list, tuple)) and not hasattr(x, "_fields"):
        return [_plain(v) for v in x] if isinstance(x, list) else tuple(_plain(v) for v in x)
    return x


def _val_eq(a, b):
    a, b = _plain(a), _plain(b)
    if type(a) is not type(b):
        return False
    if isinstance(a, (list, tuple)):
        return len(a) == len(b) and all(_val_eq(x, y) for x, y in zip(a, b))
    if isinstance(a, dict):
        return list(a.keys()) == list(b.keys()) and all(_val_eq(a[k], b[k]) for k in a) and \
            all(type(x) is type(y) for x, y in zip(a.keys(), b.keys()))
    if isinstance(a, float):
        return tree_eq(a, b)
    return a == b


def _run_list(case, R):
    cc = sandbox._state["cc"]
    kind = case["item"]
    schema = cc.Schema()
    schema.items = cc.ListField(_field(cc, kind))
    # a typed list of a *different* field: it keeps raw, un-normalised items
    schema.other = cc.ListField(cc.Field())
    # ... and one whose item field has the same class as ours but other options (so it holds other normal forms)
    schema.cousin = cc.ListField(cc.StringField(transform_case="lower", transform_strip=True) if kind == "str" else _field(cc, kind))
    cfg = schema()
    cfg.items = case["init"]
    L = cfg.items
    M = [norm(kind, v) for v in case["init"]]
    R.label("list", "item:" + kind)
    flags = set()

    def iterable(items, ik):
        """Returns (argument for the proxy, argument for the model)."""
        R.label("arg:" + ik)
        normed = [norm(kind, v) for v in items]
        if ik == "list":
            return list(items), list(normed)
        if ik == "tuple":
            return tuple(items), tuple(normed)
        if ik == "iterator":
            flags.add("iter")
            return iter(list(items)), iter(list(normed))
        if ik == "generator":
            flags.add("iter")
            return (x for x in list(items)), (x for x in list(normed))
        if ik == "same-proxy":
            flags.add("iter")
            return schema.items.validate(cfg, list(items)), list(normed)
        if ik == "other-proxy":
            flags.add("iter")
            return schema.other.validate(cfg, list(items)), list(normed)
        if ik == "sameclass-proxy":
            flags.add("iter")
            return schema.cousin.validate(cfg, list(items)), list(normed)
        flags.add("iter")
        return L, list(M)

    def sl(t):
        return slice(*t)

    def compare(opname, ra, rm):
        R.check(_same_outcome(ra, rm), "return", "ListProxy." + opname,
                lambda: "%s: proxy -> %r, list -> %r" % (opname, ra, rm))

    def typed(obj, opname):
        ok = isinstance(obj, cc.ListProxy) and obj.item_field is schema.items.field
        R.check(ok, "typed", "ListProxy." + opname, "result of %s is %s, not a ListProxy of the same field" % (opname, type(obj).__name__))
        if ok:
            bad = INVALID[kind][len(M) % len(INVALID[kind])]
            before = list(obj)
            try:
                obj.append(bad)
                R.fail("typed", "ListProxy.%s:validates" % opname, "result of %s accepted invalid item %r" % (opname, bad))
                obj.pop()
            except Exception:
                R.checks += 1
            R.check(_val_eq(list(obj), before), "typed", "ListProxy.%s:unchanged" % opname, "rejected append changed the copy")

    for op in case["ops"]:
        name = op["op"]
        if len(M) > 400 and (name in ("imul", "mul") or op.get("ik") == "self"):
            continue  # doubling a list again and again in a long history only burns memory and time
        R.label("op:" + name)
        if name == "append":
            compare(name, _outcome(lambda: L.append(op["v"])), _outcome(lambda: M.append(norm(kind, op["v"]))))
        elif name == "insert":
            compare(name, _outcome(lambda: L.insert(op["i"], op["v"])), _outcome(lambda: M.insert(op["i"], norm(kind, op["v"]))))
        elif name == "extend":
            a, m = iterable(op["items"], op["ik"])
            compare(name, _outcome(lambda: L.extend(a)), _outcome(lambda: M.extend(m)))
        elif name == "setitem":
            i = op["i"]
            ia = Idx(i) if op["objidx"] else i
            if op["objidx"]:
                R.label("arg:__index__")
            compare(name, _outcome(lambda: L.__setitem__(ia, op["v"])), _outcome(lambda: M.__setitem__(i, norm(kind, op["v"]))))
        elif name == "setslice":
            flags.add("slice")
            a, m = iterable(op["items"], op["ik"])
            compare(name, _outcome(lambda: L.__setitem__(sl(op["s"]), a)), _outcome(lambda: M.__setitem__(sl(op["s"]), m)))
        elif name == "iadd":
            a, m = iterable(op["items"], op["ik"])
            if op["ik"] == "tuple":
                m = list(m)  # list += tuple is fine for the built-in too
            before = L

            def do_iadd():
                nonlocal L
                L += a
            compare(name, _outcome(do_iadd), _outcome(lambda: M.extend(m)))
            R.check(L is before, "identity", "ListProxy.iadd", "+= did not return the same object")
            typed(L, "iadd")
            R.check(cfg.items is L, "identity", "ListProxy.iadd:config", "config no longer holds the mutated list")
        elif name == "add":
            a, m = iterable(op["items"], op["ik"])
            ra = _outcome(lambda: L + a)
            rm = ("ok", M + list(m))
            R.check(ra[0] == "ok" and _val_eq(list(ra[1]), rm[1]), "return", "ListProxy.add", lambda: "+ : proxy -> %r, list -> %r" % (ra, rm))
            if ra[0] == "ok":
                typed(ra[1], "add")
                # a concatenation is a NEW list (also when the right operand is empty): changing it leaves the operand alone
                R.check(ra[1] is not L, "identity", "ListProxy.add", "+ returned its left operand itself")
                if len(ra[1]):
                    held = list(L)
                    ra[1].append(ra[1][0])
                    R.check(_val_eq(list(L), held), "identity", "ListProxy.add:independent", lambda: "appending to the result of + changed the left operand: %r -> %r" % (held, list(L)))
                    if not len(a if isinstance(a, (list, tuple)) else [1]):
                        R.label("add:empty-operand")
        elif name == "reassign":
            # the whole value is replaced through the configuration (validated as a new typed list)
            a, m = iterable(op["items"], op["ik"])
            cfg.items = a
            L = cfg.items
            M = list(m)
            R.check(isinstance(L, cc.ListProxy) and L.item_field is schema.items.field, "typed", "ListProxy.reassign", "assigned value is %s" % type(L).__name__)
        elif name == "mul":
            compare(name, _outcome(lambda: list(L * op["n"])), _outcome(lambda: M * op["n"]))
            R.check((L * op["n"]) is not L, "identity", "ListProxy.mul", "* returned its operand itself")
        elif name == "imul":
            def do_imul():
                nonlocal L
                L *= op["n"]
            compare(name, _outcome(do_imul), _outcome(lambda: [M.__imul__(op["n"]), None][1]))
        elif name == "copy":
            c = L.copy()
            R.check(_val_eq(list(c), M), "return", "ListProxy.copy", "copy differs")
            R.check(c is not L, "identity", "ListProxy.copy", "copy is the same object")
            typed(c, "copy")
        elif name == "pop":
            if op["i"] is None:
                compare(name, _outcome(lambda: L.pop()), _outcome(lambda: M.pop()))
            else:
                compare(name, _outcome(lambda: L.pop(op["i"])), _outcome(lambda: M.pop(op["i"])))
        elif name == "remove":
            v = norm(kind, op["v"])
            compare(name, _outcome(lambda: L.remove(v)), _outcome(lambda: M.remove(v)))
        elif name == "delitem":
            i = op["i"]
            ia = Idx(i) if op["objidx"] else i
            compare(name, _outcome(lambda: L.__delitem__(ia)), _outcome(lambda: M.__delitem__(i)))
        elif name == "delslice":
            compare(name, _outcome(lambda: L.__delitem__(sl(op["s"]))), _outcome(lambda: M.__delitem__(sl(op["s"]))))
        elif name == "sort":
            compare(name, _outcome(lambda: L.sort(reverse=op["reverse"])), _outcome(lambda: M.sort(reverse=op["reverse"])))
        elif name == "reverse":
            compare(name, _outcome(L.reverse), _outcome(M.reverse))
        elif name == "clear":
            compare(name, _outcome(L.clear), _outcome(M.clear))
        elif name == "query":
            try:
                v = norm(kind, op["v"])
            except Exception:
                v = op["v"]  # (not a value of the item field at all: asked about as it is)
            compare("getitem", _outcome(lambda: L[op["i"]]), _outcome(lambda: M[op["i"]]))
            compare("getslice", _outcome(lambda: list(L[sl(op["s"])])), _outcome(lambda: M[sl(op["s"])]))
            compare("index", _outcome(lambda: L.index(v)), _outcome(lambda: M.index(v)))
            compare("count", _outcome(lambda: L.count(v)), _outcome(lambda: M.count(v)))
            compare("contains", _outcome(lambda: v in L), _outcome(lambda: v in M))
            # ... and with the argument AS GIVEN (a raw spelling such as "80" for 80): a query validates nothing, it answers
            # what the built-in list of the stored items answers
            raw = op["v"]
            compare("index:raw", _outcome(lambda: L.index(raw)), _outcome(lambda: M.index(raw)))
            compare("count:raw", _outcome(lambda: L.count(raw)), _outcome(lambda: M.count(raw)))
            compare("contains:raw", _outcome(lambda: raw in L), _outcome(lambda: raw in M))
            compare("eq", _outcome(lambda: L == list(M)), ("ok", True))
            compare("iter", _outcome(lambda: [x for x in L]), ("ok", list(M)))
            compare("reversed", _outcome(lambda: list(reversed(L))), ("ok", list(reversed(M))))
        # invariant after every op
        R.check(_val_eq(list(L), M), "contents", "ListProxy." + name,
                lambda: "after %r: proxy %r, built-in %r" % (op, list(L), M))
        R.check(len(L) == len(M), "length", "ListProxy." + name, "len differs")
        if not _val_eq(list(L), M):
            # resynchronise so that one divergence is reported once per op kind
            M[:] = list(L)
    if "slice" in flags and "iter" in flags:
        R.nontrivial = True


def _run_dict(case, R):
    cc = sandbox._state["cc"]
    kk, vk = case["key"], case["value"]
    schema = cc.Schema()
    schema.d = cc.DictField(_field(cc, kk), _field(cc, vk))
    # a typed dict of *different* fields: it keeps raw, un-normalised keys and values
    schema.other = cc.DictField(cc.Field(), cc.Field())
    schema.cousin = cc.DictField(cc.StringField(transform_case="lower") if kk == "str" else _field(cc, kk),
                                 cc.StringField(transform_case="lower", transform_strip=True) if vk == "str" else _field(cc, vk))
    cfg = schema()
    cfg.d = dict((k, v) for k, v in case["init"] if _hashable(k))
    D = cfg.d
    M = {}
    for k, v in case["init"]:
        M[norm(kk, k)] = norm(vk, v)
    # dict(init) collapses duplicate raw keys first; rebuild the model the same way
    M = {}
    for k, v in dict((k, v) for k, v in case["init"]).items():
        M[norm(kk, k)] = norm(vk, v)
    R.label("dict", "key:" + kk, "value:" + vk)
    flags = set()

    def compare(opname, ra, rm):
        R.check(_same_outcome(ra, rm), "return", "DictProxy." + opname,
                lambda: "%s: proxy -> %r, dict -> %r" % (opname, ra, rm))

    def source(pairs, dk):
        R.label("arg:" + dk)
        npairs = [(norm(kk, k), norm(vk, v)) for k, v in pairs]
        if dk == "dict":
            return dict(pairs), {norm(kk, k): norm(vk, v) for k, v in dict(pairs).items()}
        if dk == "pairs":
            return list(pairs), npairs
        if dk == "tuple":
            return tuple(pairs), tuple(npairs)
        if dk == "iterator":
            flags.add("iter")
            return iter(list(pairs)), iter(npairs)
        if dk == "generator":
            flags.add("iter")
            return (p for p in list(pairs)), (p for p in npairs)
        if dk == "same-proxy":
            flags.add("iter")
            return schema.d.validate(cfg, dict(pairs)), {norm(kk, k): norm(vk, v) for k, v in dict(pairs).items()}
        if dk == "other-proxy":
            flags.add("iter")
            return schema.other.validate(cfg, dict(pairs)), {norm(kk, k): norm(vk, v) for k, v in dict(pairs).items()}
        if dk == "sameclass-proxy":
            flags.add("iter")
            src = schema.cousin.validate(cfg, dict(pairs))
            return src, {norm(kk, k): norm(vk, v) for k, v in dict(src).items()}
        flags.add("iter")
        return D, dict(M)

    def typed(obj, opname):
        ok = isinstance(obj, cc.DictProxy) and obj.dict_field is schema.d
        R.check(ok, "typed", "DictProxy." + opname, "result of %s is %s, not a DictProxy of the same field" % (opname, type(obj).__name__))
        if ok:
            bad = INVALID[vk][len(M) % len(INVALID[vk])]
            goodkey = "k" if kk == "str" else (1 if kk == "int" else b"k")
            try:
                obj[goodkey] = bad
                R.fail("typed", "DictProxy.%s:validates" % opname, "result of %s accepted invalid value %r" % (opname, bad))
                del obj[norm(kk, goodkey)]
            except Exception:
                R.checks += 1

    for op in case["ops"]:
        name = op["op"]
        R.label("op:" + name)
        if name == "setitem":
            compare(name, _outcome(lambda: D.__setitem__(op["k"], op["v"])),
                    _outcome(lambda: M.__setitem__(norm(kk, op["k"]), norm(vk, op["v"]))))
        elif name == "update":
            flags.add("update")
            a, m = source(op["pairs"], op["dk"])
            kw = op["kw"] if kk == "str" else {}
            nkw = {norm(kk, k): norm(vk, v) for k, v in kw.items()}
            if kw:
                R.label("arg:kwargs")

            def model_update():
                M.update(m)
                # keyword keys are normalised by the key field like any other key
                for k, v in nkw.items():
                    M[k] = v
            compare(name, _outcome(lambda: D.update(a, **kw)), _outcome(model_update))
        elif name == "update-kw":
            flags.add("update")
            if kk != "str":
                continue
            R.label("arg:kwargs")
            kw = op["kw"]

            def model_update_kw():
                for k, v in kw.items():
                    M[norm(kk, k)] = norm(vk, v)
            compare(name, _outcome(lambda: D.update(**kw)), _outcome(model_update_kw))
        elif name == "setdefault":
            flags.add("update")
            compare(name, _outcome(lambda: D.setdefault(op["k"], op["v"])),
                    _outcome(lambda: M.setdefault(norm(kk, op["k"]), norm(vk, op["v"]))))
        elif name == "ior":
            flags.add("update")
            a, m = source(op["pairs"], op["dk"])
            before = D

            def do_ior():
                nonlocal D
                D |= a

            def model_ior():
                M.update(m)
            compare(name, _outcome(do_ior), _outcome(model_ior))
            R.check(D is before, "identity", "DictProxy.ior", "|= did not return the same object")
            typed(D, "ior")
        elif name == "reassign":
            a, m = source(op["pairs"], op["dk"])
            cfg.d = a
            D = cfg.d
            M = dict(m)
            R.check(isinstance(D, cc.DictProxy) and D.dict_field is schema.d, "typed", "DictProxy.reassign", "assigned value is %s" % type(D).__name__)
        elif name == "pop":
            k = norm(kk, op["k"])
            if op["default"] == "<none>":
                compare(name, _outcome(lambda: D.pop(k)), _outcome(lambda: M.pop(k)))
            else:
                dv = norm(vk, op["default"])
                compare(name, _outcome(lambda: D.pop(k, dv)), _outcome(lambda: M.pop(k, dv)))
        elif name == "popitem":
            compare(name, _outcome(D.popitem), _outcome(M.popitem))
        elif name == "delitem":
            k = norm(kk, op["k"])
            compare(name, _outcome(lambda: D.__delitem__(k)), _outcome(lambda: M.__delitem__(k)))
        elif name == "clear":
            compare(name, _outcome(D.clear), _outcome(M.clear))
        elif name == "copy":
            c = D.copy()
            R.check(_val_eq(dict(c), M), "return", "DictProxy.copy", "copy differs")
            R.check(c is not D, "identity", "DictProxy.copy", "copy is the same object")
            typed(c, "copy")
        elif name == "query":
            k = norm(kk, op["k"])
            compare("getitem", _outcome(lambda: D[k]), _outcome(lambda: M[k]))
            compare("get", _outcome(lambda: D.get(k, "dflt")), _outcome(lambda: M.get(k, "dflt")))
            compare("contains", _outcome(lambda: k in D), _outcome(lambda: k in M))
            compare("keys", _outcome(lambda: list(D.keys())), ("ok", list(M.keys())))
            compare("values", _outcome(lambda: list(D.values())), ("ok", list(M.values())))
            compare("items", _outcome(lambda: [tuple(i) for i in D.items()]), ("ok", [tuple(i) for i in M.items()]))
            compare("eq", _outcome(lambda: D == dict(M)), ("ok", True))
            compare("len", _outcome(lambda: len(D)), ("ok", len(M)))
        R.check(_val_eq(dict(D), M), "contents", "DictProxy." + name,
                lambda: "after %r: proxy %r, built-in %r" % (op, dict(D), M))
        if not _val_eq(dict(D), M):
            M.clear()
            M.update(dict(D))
    R.check(cfg.d is D, "identity", "DictProxy:config", "config no longer holds the mutated dict")
    if "update" in flags and "iter" in flags:
        R.nontrivial = True


def _hashable(k):
    try:
        hash(k)
        return True
    except TypeError:
        return False


def _run_schemalist(case, R):
    """Lists whose items are configurations: compared through asdict."""
    cc = sandbox._state["cc"]
    item = cc.Schema()
    item.v = cc.IntField(default=0)
    item.name = cc.StringField(default="n")
    schema = cc.Schema()
    if case["configtype"]:
        Item = cc.make_type(item, "Item")
        schema.items = cc.ListField(Item)
        R.label("item:configtype")
    else:
        schema.items = cc.ListField(item)
        R.label("item:schema")
    cfg = schema()
    cfg.items = []
    L = cfg.items
    M = []
    R.label("list")

    def mk(v, how="dict"):
        if how == "config":
            c = (Item() if case["configtype"] else item())
            c.v = v
            return c
        return {"v": v}

    def snap():
        out = []
        for x in L:
            if not isinstance(x, cc.Config):
                return "non-config item %r" % (x,)
            out.append(cc.asdict(x))
        return out

    for op in case["ops"]:
        name = op["op"]
        R.label("op:" + name)
        if name == "append":
            ra = _outcome(lambda: L.append(mk(op["v"], op["as"])))
            rm = _outcome(lambda: M.append({"v": op["v"], "name": "n"}))
        elif name == "insert":
            ra = _outcome(lambda: L.insert(op["i"], mk(op["v"], op["as"])))
            rm = _outcome(lambda: M.insert(op["i"], {"v": op["v"], "name": "n"}))
        elif name == "extend":
            src = [mk(v) for v in op["vs"]]
            ik = op["ik"]
            R.label("arg:" + ik)
            arg = {"list": src, "tuple": tuple(src), "iterator": iter(src), "generator": (x for x in src)}[ik]
            ra = _outcome(lambda: L.extend(arg))
            rm = _outcome(lambda: M.extend([{"v": v, "name": "n"} for v in op["vs"]]))
        elif name == "setitem":
            ra = _outcome(lambda: L.__setitem__(op["i"], mk(op["v"])))
            rm = _outcome(lambda: M.__setitem__(op["i"], {"v": op["v"], "name": "n"}))
        elif name == "setslice":
            src = [mk(v) for v in op["vs"]]
            ik = op["ik"]
            R.label("arg:" + ik)
            arg = {"list": src, "tuple": tuple(src), "iterator": iter(src)}[ik]
            ra = _outcome(lambda: L.__setitem__(slice(*op["s"]), arg))
            rm = _outcome(lambda: M.__setitem__(slice(*op["s"]), [{"v": v, "name": "n"} for v in op["vs"]]))
        elif name == "pop":
            if op["i"] is None:
                ra = _outcome(lambda: cc.asdict(L.pop()))
                rm = _outcome(lambda: M.pop())
            else:
                ra = _outcome(lambda: cc.asdict(L.pop(op["i"])))
                rm = _outcome(lambda: M.pop(op["i"]))
        elif name == "delitem":
            ra = _outcome(lambda: L.__delitem__(op["i"]))
            rm = _outcome(lambda: M.__delitem__(op["i"]))
        elif name == "reverse":
            ra, rm = _outcome(L.reverse), _outcome(M.reverse)
        elif name == "lookup":
            ref = list(L)  # a built-in list over the very same item objects
            arg = mk(op["v"] % 4, "config") if (op["arg"] == "twin" or not L) else L[op["j"] % len(L)]
            what = op["what"]
            R.label("lookup:%s:%s" % (what, op["arg"]))
            call = {"remove": lambda l: l.remove(arg), "index": lambda l: l.index(arg), "count": lambda l: l.count(arg), "contains": lambda l: arg in l}[what]
            ra, rb = _outcome(lambda: call(L)), _outcome(lambda: call(ref))
            R.check(_same_outcome(ra, rb), "return", "ListProxy.%s:schema:by-value" % what, lambda: "%s(%s): proxy -> %r, built-in list of the same items -> %r" % (what, op["arg"], ra, rb))
            R.check([id(x) for x in L] == [id(x) for x in ref], "contents", "ListProxy.%s:schema:by-value" % what,
                    lambda: "after %s(%s) the proxy holds items at positions %r of the original, the built-in list %r" % (
                        what, op["arg"], [i for x in L for i, y in enumerate(ref + [arg]) if y is x][:8], list(range(len(ref)))))
            M[:] = [cc.asdict(x) for x in ref] if [id(x) for x in L] == [id(x) for x in ref] else snap()
            ra = rm = ("ok", None)
        elif name == "copy":
            c = L.copy()
            R.check(isinstance(c, cc.ListProxy) and c.item_field is schema.items.field, "typed", "ListProxy.copy:schema", "copy of a config list is not typed")
            ra = rm = ("ok", None)
        else:
            ra, rm = _outcome(L.clear), _outcome(M.clear)
        R.check(_same_outcome(ra, rm), "return", "ListProxy.%s:schema" % name, lambda: "%s: proxy -> %r, list -> %r" % (name, ra, rm))
        s = snap()
        R.check(s == M, "contents", "ListProxy.%s:schema" % name, lambda: "after %r: proxy %r, model %r" % (op, s, M))
        if s != M:
            if isinstance(s, str):
                return
            M[:] = s
    R.nontrivial = R.nontrivial or any(o["op"] == "setslice" for o in case["ops"])


def exhaustive_nested_values():
    """Typed dicts / lists whose VALUES are containers themselves (a dict of dicts, a dict of lists, a list of lists... as far as
    the field types go): the look-up-or-create idioms, in lock-step with built-in containers."""
    for outer in ("dict-of-dict", "dict-of-list", "dict-of-typed-list"):
        for idiom in ("setdefault-then-edit", "setdefault-twice", "get-then-edit", "getitem-then-edit", "setdefault-present", "pop-then-edit", "update-then-edit", "ior-then-edit"):
            yield {"kind": "nested-values", "outer": outer, "idiom": idiom}


def _run_nested_values(case, R):
    cc = sandbox._state["cc"]
    outer, idiom = case["outer"], case["idiom"]
    R.label("nested-values", "nested-values:" + idiom)
    R.nontrivial = True
    inner_is_dict = outer == "dict-of-dict"
    vf = {"dict-of-dict": lambda: cc.DictField(cc.StringField(), cc.IntField()), "dict-of-list": lambda: cc.ListField(),
          "dict-of-typed-list": lambda: cc.ListField(cc.IntField())}[outer]()
    schema = cc.Schema()
    schema.groups = cc.DictField(cc.StringField(), vf)
    cfg = schema()
    cfg.groups = {"old": ({"a": 1} if inner_is_dict else [1])}
    d = cfg.groups
    m = {"old": ({"a": 1} if inner_is_dict else [1])}
    empty = (lambda: {}) if inner_is_dict else (lambda: [])

    def edit(x, n):
        if inner_is_dict:
            x["k%d" % n] = n
        else:
            x.append(n)
    try:
        if idiom == "setdefault-then-edit":
            edit(d.setdefault("new", empty()), 1)
            edit(m.setdefault("new", empty()), 1)
        elif idiom == "setdefault-twice":
            edit(d.setdefault("new", empty()), 1)
            edit(d.setdefault("new", empty()), 2)
            edit(m.setdefault("new", empty()), 1)
            edit(m.setdefault("new", empty()), 2)
        elif idiom == "setdefault-present":
            edit(d.setdefault("old", empty()), 1)
            edit(m.setdefault("old", empty()), 1)
        elif idiom == "get-then-edit":
            edit(d.get("old"), 1)
            edit(m.get("old"), 1)
        elif idiom == "getitem-then-edit":
            edit(d["old"], 1)
            edit(m["old"], 1)
        elif idiom == "pop-then-edit":
            edit(d.pop("old"), 1)
            edit(m.pop("old"), 1)
        elif idiom == "update-then-edit":
            d.update({"new": empty()})
            m.update({"new": empty()})
            edit(d["new"], 1)
            edit(m["new"], 1)
        else:
            d |= {"new": empty()}
            m |= {"new": empty()}
            edit(d["new"], 1)
            edit(m["new"], 1)
    except Exception as exc:
        R.fail("crash", "nested-values:" + idiom, "%s on a %s raised %r" % (idiom, outer, exc))
        return
    plain = {k: (dict(v) if inner_is_dict else list(v)) for k, v in cfg.groups.items()}
    R.check(plain == m, "contents", "DictProxy.nested-values:" + idiom, lambda: "%s on a %s: proxy %r, built-in %r" % (idiom, outer, plain, m))


def run_case(case, R):
    if case["kind"] == "nested-values":
        return _run_nested_values(case, R)
    if case["kind"] == "list":
        _run_list(case, R)
    elif case["kind"] == "dict":
        _run_dict(case, R)
    else:
        _run_schemalist(case, R)
