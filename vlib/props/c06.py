"""C06 — a rejected operation leaves the configuration exactly as it was."""
import os

from hypothesis import strategies as st

from .. import ops, refmodel, sandbox, specs, trees, worlds

ID = "C06"
LEVEL = "exploration"
DESIGN_REF = "DESIGN.md §4 C06"
RULE = (
    "Model-free stateful testing with a before/after oracle. A case = (schema spec, history): the history first "
    "drives the configuration into an arbitrary state (all C01 routes) and is interleaved with operations that "
    "can fail; whenever an operation of a kind the statement lists RAISES - assignment by attribute / dotted path "
    "/ constructor keyword (incl. a map with a bad leaf, a wrong-shaped value or a configuration assigned to a "
    "sub-configuration, and assignment to read-only virtual/method members), a single-element append / insert / "
    "[i]= on a typed list or list of configurations, [k]= / setdefault / update({k: v}) on a typed dict, a "
    "document that fails to parse in any of the 5 formats (truncated at a generated offset, wrong XML root, "
    "garbage, non-UTF-8) or whose include file is missing / a directory - the deep snapshot taken before must "
    "equal the one taken after: every value at every depth, every user-defined mark, and the identity (id) of "
    "every nested configuration, typed list and typed dict; for constructor failures a fresh configuration of the "
    "schema is compared instead. Non-trivial = the pre-state differs from the defaults and the failing op "
    "addresses depth >= 1 or a container."
)
ASSUMPTIONS = [
    "operations not listed by the statement (multi-element extend, a tree load that fails validation half way, "
    "reset, command-line override) are executed to reach states but not judged",
    "a mutated document that still parses is not a failing parse; only non-ValidationError failures of loads are "
    "judged as parse / include failures",
]
REQUIRED = ["judged:setattr", "judged:setitem", "judged:ctor", "judged:assign_sub", "judged:listop", "judged:dictop",
            "judged:slistop", "judged:bad_doc", "judged:bad_include", "judged:set_readonly", "dynamic-key-before-failed-load", "judged:assign_sub_unknown"]
LEVEL_TEXT = (
    "Generated states x generated failing operations with a full deep before/after snapshot (values, defined "
    "marks, identities); shows the property on the explored pairs and kills mutants that store or clear marks "
    "before validating, replace a sub-configuration before its load succeeded, or touch the config before parsing."
)
LEVEL_NOTE = "Trusted: CPython, Hypothesis, the snapshot function in vlib/worlds.py (reads through the public API)."
TECHNIQUE = "stateful property testing with a before/after invariant (Hypothesis histories + fault-shaped inputs)"

GARBAGE = [b"", b"{", b"[1,", b"\xff\xfe\x00", b"<a>", b"a: [", b": :", b"\x00\x01\x02", b"}{", b"<config><a></config>",
           b"\x80\x04garbage", b"{\"a\": }", b"- a\n b: [", b"\xc3\x28"]
JUDGED_LIST = ("append", "insert", "setitem")
JUDGED_DICT = ("setitem", "setdefault", "update1")
JUDGED_SLIST = ("append", "append-config", "insert", "setitem", "item-set", "reappend", "reinsert")


def selftest():
    refmodel.selftest()


def budget(tier):
    if tier == "quick":
        return {"cases": 500, "shards": 3}
    return {"cases": 4000, "shards": 16}


def exhaustive_objects():
    for place in ("root", "nested"):
        for how in ("required", "validator"):
            for route in ("setattr", "setitem", "ctor"):
                yield {"mode": "assign-object", "place": place, "how": how, "route": route}


def exhaustive(tier):
    """Typed lists / dicts that also carry a container-level rule (validator on the list/dict field itself), filled
    up to that rule's limit, then one single-element operation at every index form: whatever is rejected must
    leave the value untouched."""
    for kind in ("list", "dict"):
        for k in (2, 3, 4):
            for op in ("append", "setitem", "insert", "setdefault", "update1", "update-pairs", "update-kw", "ior", "assign-too-many", "setitem-path-too-many"):
                if not op.endswith("too-many") and (kind == "list") != (op in ("append", "setitem", "insert")):
                    continue
                for i in (range(-5, 6) if op in ("insert", "setitem") else (0,)):
                    for bad_item in (False, True):
                        for held in ("assigned", "default"):  # the container was assigned by the user, or is still the field's default
                            yield {"mode": "limit", "kind": kind, "k": k, "what": op, "i": i, "bad_item": bad_item, "held": held}
    yield from exhaustive_objects()
    # a configuration that the list already holds, edited into a state its own schema rejects, is offered to the
    # same list again (append / insert / item replacement): the rejection must leave the list as it was
    for configtype in (False, True):
        for n in (1, 2, 3):
            for j in range(n):
                for op in ("append", "insert", "setitem", "extend1", "iadd1"):
                    for i in (range(-3, 4) if op in ("insert", "setitem") else (0,)):
                        yield {"mode": "reoffer", "configtype": configtype, "n": n, "j": j, "what": op, "i": i}

    # a typed dict whose KEY field normalises what it is given (numbers from text, case, blanks): every single-entry
    # operation with a key that is legal but not in normal form, present or absent, with a good or a bad value
    for keyf in ("int", "lower", "strip", "upper-strip"):
        for op in ("setitem", "setdefault", "update1", "update-pairs", "update-kw", "ior", "pop", "delitem", "getitem"):
            for present in (False, True):
                for bad_value in (False, True):
                    yield {"mode": "raw-key", "keyf": keyf, "what": op, "present": present, "bad_value": bad_value}
    # a MAP offered as one element of a list of configurations whose items carry a cross-field rule: every held state x
    # every map over a small grid (keys present / absent, good / conflicting / wrongly typed values) x operation x index
    for configtype in (False, True):
        for held in ((0, 10), (50, 60), (5, 5), (None, None)):
            for op in ("append", "insert", "setitem", "extend1", "iadd1", "setslice1"):
                for i in ((-2, -1, 0, 1) if op in ("insert", "setitem", "setslice1") else (0,)):
                    yield {"mode": "item-map", "configtype": configtype, "held": held, "what": op, "i": i}


def _raw_key_case(case, R):
    cc = sandbox._state["cc"]
    keyf, what = case["keyf"], case["what"]
    R.label("raw-key", "raw-key:" + what)
    field = {"int": lambda: cc.IntField(), "lower": lambda: cc.StringField(transform_case="lower"), "strip": lambda: cc.StringField(transform_strip=True),
             "upper-strip": lambda: cc.StringField(transform_case="upper", transform_strip=True)}[keyf]()
    raw, normal, other = {"int": ("7", 7, 8), "lower": ("Web", "web", "db"), "strip": (" web ", "web", "db"), "upper-strip": (" web\n", "WEB", "DB")}[keyf]
    schema = cc.Schema()
    schema.table = cc.DictField(field, cc.IntField(min=0, max=100))
    schema.sub.table = cc.DictField(field, cc.IntField(min=0, max=100))
    schema.other = cc.IntField(default=1)
    for owner in (lambda c: c, lambda c: c.sub):
        cfg = schema()
        owner(cfg).table = dict([(other, 1)] + ([(normal, 2)] if case["present"] else []))
        d = owner(cfg).table
        value = 1000 if case["bad_value"] else 5
        before = worlds.snapshot(cfg, cc, with_ids=True)
        try:
            if what == "setitem":
                d[raw] = value
            elif what == "setdefault":
                d.setdefault(raw, value)
            elif what == "update1":
                d.update({raw: value})
            elif what == "update-pairs":
                d.update([(raw, value)])
            elif what == "update-kw":
                if not isinstance(raw, str):
                    return
                d.update(**{raw: value})
            elif what == "ior":
                d |= {raw: value}
            elif what == "pop":
                d.pop(raw)
            elif what == "delitem":
                del d[raw]
            else:
                d[raw]
            raised = None
        except Exception as exc:
            raised = exc
        if raised is None:
            R.label("raw-key:returned")
            continue
        R.label("judged:raw-key")
        R.nontrivial = True
        after = worlds.snapshot(cfg, cc, with_ids=True)
        R.check(before == after, "unchanged", "raw-key:" + what,
                lambda: "%s with the key %r (normal form %r, %s) and the value %r raised %r and changed the dict: %s" % (
                    what, raw, normal, "present" if case["present"] else "absent", value, raised, worlds.diff(before, after)))


def _item_map_case(case, R):
    cc = sandbox._state["cc"]
    R.label("item-map")
    item = cc.Schema()
    item.lo = cc.IntField(default=0)
    item.hi = cc.IntField(default=10)
    item.tag = cc.StringField()

    @cc.validator(item)
    def lo_le_hi(cfg):
        if cfg.lo is not None and cfg.hi is not None and cfg.lo > cfg.hi:
            raise ValueError("lo must not exceed hi")
    schema = cc.Schema()
    schema.items = cc.ListField(cc.make_type(item, "MapItem", module=__name__) if case["configtype"] else item)
    schema.other = cc.IntField(default=1)
    what, i = case["what"], case["i"]
    absent = object()
    for lo in (absent, 1, 70, "bad"):
        for hi in (absent, 3, 10, "bad"):
            for tag in (absent, "t"):
                offered = {k: v for k, v in (("lo", lo), ("hi", hi), ("tag", tag)) if v is not absent}
                cfg = schema()
                cfg.items = [{"tag": "first"}, {"tag": "second", "lo": 2, "hi": 4}]
                if case["held"][0] is not None:
                    cfg.items[0].lo, cfg.items[0].hi = 0, 1000
                    cfg.items[0].hi, cfg.items[0].lo = case["held"][1], case["held"][0]
                lst = cfg.items
                before = worlds.snapshot(cfg, cc, with_ids=True)
                try:
                    if what == "append":
                        lst.append(dict(offered))
                    elif what == "insert":
                        lst.insert(i, dict(offered))
                    elif what == "setitem":
                        lst[i] = dict(offered)
                    elif what == "setslice1":
                        lst[i:i + 1 if i != -1 else None] = [dict(offered)]
                    elif what == "extend1":
                        lst.extend([dict(offered)])
                    else:
                        lst += [dict(offered)]
                    raised = None
                except Exception as exc:
                    raised = exc
                if raised is None:
                    R.label("item-map:accepted")
                    continue
                R.label("judged:item-map")
                R.nontrivial = True
                after = worlds.snapshot(cfg, cc, with_ids=True)
                R.check(before == after, "unchanged", "item-map:" + what,
                        lambda: "%s(%r) of the map %r on a list whose first item holds lo, hi = %r was rejected (%r) and changed the list: %s" % (
                            what, i, offered, case["held"], raised, worlds.diff(before, after)))


def _with_includes(spec):
    """Optionally add include fields at the root and in one nested schema."""
    def add(flags):
        root, nested = flags
        spec2 = dict(spec, children=list(spec["children"]))
        inc = {"kind": "include", "key": "inc", "req": False, "validator": None, "opts": {"startdir": "$ROOT/fs"}, "default": {"mode": "none"}}
        if root:
            spec2["children"] = spec2["children"] + [inc]
        if nested:
            kids = []
            done = False
            for c in spec2["children"]:
                if not done and c["kind"] == "schema":
                    c = dict(c, children=list(c["children"]) + [dict(inc, key="include")])
                    done = True
                kids.append(c)
            spec2["children"] = kids
        return spec2
    return st.tuples(st.booleans(), st.booleans()).map(add)


def _extra_ops(spec):
    leaves = ops.spec_leaves(spec)
    incs = [(p, n) for p, n in leaves if n["kind"] == "include"]
    D, J = st.fixed_dictionaries, st.just
    extra = [D({"op": J("bad_doc"), "fmt": st.sampled_from(trees.FORMATS), "tree": ops.subtree(spec),
                "mut": st.one_of(D({"k": J("truncate"), "at": st.integers(0, 200)}), D({"k": J("truncate"), "at": st.integers(0, 24)}),
                                 D({"k": J("wrongroot")}), D({"k": J("garbage"), "i": st.integers(0, len(GARBAGE) - 1)}),
                                 D({"k": J("nonutf8"), "at": st.integers(0, 60)}))})]
    if incs:
        extra.append(D({"op": J("bad_include"), "inc": st.integers(0, len(incs) - 1), "fmt": st.sampled_from(trees.FORMATS),
                        "tree": ops.subtree(spec), "target": st.sampled_from(["missing.cfg", "sub", "empty", "sub/none/x", "", "$ROOT/fs/nope", "$ROOT/fs/sub", "a.txt"])}))
    conts = ops.spec_containers(spec)
    if conts:
        # a map assigned to a sub-configuration that also names a field the sub-schema does not declare (named last, so that
        # the declared keys before it have already been applied to the replacement when the assignment is rejected)
        extra.append(st.integers(0, len(conts) - 1).flatmap(lambda i: D({"op": J("assign_sub_unknown"), "cont": J(i), "tree": ops.subtree(conts[i][1]),
                                                                          "how": st.sampled_from(["setattr", "setitem"])})))
    tds = [(p, n) for p, n in leaves if n["kind"] == "dict" and (n.get("keyf") or n.get("valuef"))]
    if tds:
        def one(i):
            n = tds[i][1]
            k = (specs.values(n["keyf"]) if n.get("keyf") else st.sampled_from(["a", "b"])).filter(specs._hashable)
            v = specs.values(n["valuef"]) if n.get("valuef") else specs.junk()
            return D({"op": J("dictop"), "td": J(i), "what": J("update1"), "k": k, "v": v, "kv": J([])})
        extra.append(st.integers(0, len(tds) - 1).flatmap(one))
    return extra


def strategy(tier):
    n = 20 if tier == "quick" else 60

    def hist(spec):
        base = ops.single_op(spec)
        extra = _extra_ops(spec)
        mixed = st.lists(ops.weighted((3, base), (1, st.one_of(*extra))), min_size=2, max_size=n)
        return st.fixed_dictionaries({"spec": st.just(spec), "ops": mixed})
    from .c11 import _decorate
    # whole-configuration rules (schema-level validators, cross-field validators) on every level incl. item schemas
    draws = [[{"name": "sv_max_set", "k": 1}], None, [{"name": "sv_ok"}], [{"name": "sv_max_set", "k": 2}], [{"name": "sv_min_set", "k": 1}], None]
    return worlds.schema_spec(tier, allow=("schema", "configtype", "schemalist", "schemalist", "virtual", "method", "featureflag")).map(
        lambda spec: _decorate(spec, draws, [0])).flatmap(_with_includes).flatmap(hist)


def _mutate(doc, mut, fmt):
    k = mut["k"]
    if k == "truncate":
        at = mut["at"] % max(len(doc), 1)
        return doc[:at]
    if k == "wrongroot":
        if fmt == "xml":
            return doc.replace(b"<config", b"<konfig").replace(b"</config", b"</konfig")
        return doc[: len(doc) // 2] + b"\x00\xff" + doc[len(doc) // 2:]
    if k == "garbage":
        g = GARBAGE[mut["i"]]
        return g if fmt != "pickle" else b"\x80\x04garbage"
    at = mut["at"] % max(len(doc), 1)
    return doc[:at] + b"\xff\xfe\x80" + doc[at:]


def _mask(x):
    """Two fresh configurations legitimately differ in the random salts of plaintext challenge defaults."""
    if isinstance(x, tuple) and x and x[0] == "digest":
        return ("digest", len(x[1]), len(x[2]))
    if isinstance(x, tuple):
        return tuple(_mask(v) for v in x)
    if isinstance(x, list):
        return [_mask(v) for v in x]
    if isinstance(x, dict):
        return {k: _mask(v) for k, v in x.items()}
    return x


def _limit_case(case, R):
    cc = sandbox._state["cc"]
    from ..refmodel import run_validator
    R.label("limit:" + case["kind"])
    schema = cc.Schema()
    rule = lambda cfg, value: run_validator("v_short", value)  # at most three items
    start = list(range(10, 10 + case["k"])) if case["kind"] == "list" else {"k%d" % j: j for j in range(case["k"])}
    kw = {"default": (lambda: type(start)(start))} if case.get("held") == "default" else {}
    if case["kind"] == "list":
        schema.box = cc.ListField(cc.IntField(min=0), validator=rule, **kw)
    else:
        schema.box = cc.DictField(cc.StringField(), cc.IntField(min=0), validator=rule, **kw)
    schema.other = cc.IntField(default=1)
    if case.get("held") == "default":
        if len(start) > 3:
            return
        cfg = schema()
        if cc.is_value_defined(cfg, "box"):
            return
    else:
        cfg = schema()
        try:
            cfg.box = start
        except Exception:
            return  # four items: the whole assignment is rejected by the rule, nothing to do
    box = cfg.box
    before = worlds.snapshot(cfg, cc, with_ids=True)
    item = -1 if case["bad_item"] else 99
    what, i = case["what"], case["i"]
    try:
        if what == "append":
            box.append(item)
        elif what == "insert":
            box.insert(i, item)
        elif what == "setitem":
            box[i] = item
        elif what in ("assign-too-many", "setitem-path-too-many"):
            # a whole new value whose items / entries are all fine, but which the field's own validator rejects (too many)
            big = list(range(20, 26)) if case["kind"] == "list" else {"n%d" % j: j for j in range(6)}
            if case["bad_item"]:
                big = big[:2] + [-1] if case["kind"] == "list" else dict(list(big.items())[:2], bad=-1)
            if what == "assign-too-many":
                cfg.box = big
            else:
                cfg["box"] = big
        elif what == "setdefault":
            box.setdefault("new", item)
        elif what == "update1":
            box.update({"new": item})
        elif what == "update-pairs":
            box.update([("new", item)])
        elif what == "update-kw":
            box.update(new=item)
        else:
            box |= {"new": item}
        raised = False
    except Exception:
        raised = True
    if raised:
        R.label("judged:limit")
        after = worlds.snapshot(cfg, cc, with_ids=True)
        R.check(before == after, "unchanged", "limit:%s:%s" % (case["kind"], what),
                lambda: "a rejected %s(%r) on a %d-item typed %s changed it: %s" % (what, i, case["k"], case["kind"], worlds.diff(before, after)))
        R.nontrivial = True


def _assign_object_case(case, R):
    """A configuration OBJECT (not a map) is assigned to a sub-configuration slot; the object is fine field by field but
    fails validation as a whole (a required field is unset / its schema validator objects). Whether such an object is
    accepted is not this property's business - but IF the assignment raises, nothing may have changed."""
    cc = sandbox._state["cc"]
    sub = cc.Schema()
    sub.host = cc.StringField(required=True)
    sub.port = cc.IntField(default=80)
    sub.lo = cc.IntField(default=0)
    sub.hi = cc.IntField(default=10)

    @cc.validator(sub)
    def lo_le_hi(cfg):
        if cfg.lo is not None and cfg.hi is not None and cfg.lo > cfg.hi:
            raise ValueError("lo must not exceed hi")
    Server = cc.make_type(sub, "Server", module=__name__)
    schema = cc.Schema()
    schema.other = cc.IntField(default=1)
    place = case["place"]
    if place == "root":
        schema.primary = Server
        path = ("primary",)
    else:
        schema.site.primary = Server
        path = ("site", "primary")
    cfg = schema()
    cfg[".".join(path)] = {"host": "old.example", "port": 8080}
    obj = Server()
    obj.port = 6000
    if case["how"] == "validator":
        obj.host = "new.example"
        obj.lo, obj.hi = 9, 1
    R.label("assign-object")
    before = worlds.snapshot(cfg, cc, with_ids=True)
    route = case["route"]
    try:
        if route == "setattr":
            setattr(worlds.get_path(cfg, path[:-1]), path[-1], obj)
        elif route == "setitem":
            cfg[".".join(path)] = obj
        else:
            if place != "root":
                return
            schema(primary=obj)
        raised = False
    except Exception:
        raised = True
    if raised:
        R.label("judged:assign-object")
        R.nontrivial = True
        after = worlds.snapshot(cfg, cc, with_ids=True)
        R.check(before == after, "unchanged", "assign-object:" + route,
                lambda: "assigning a configuration object that fails whole-configuration validation raised, and changed the configuration: %s" % worlds.diff(before, after))


def _reoffer_case(case, R):
    cc = sandbox._state["cc"]
    R.label("reoffer")
    item = cc.Schema()
    item.lo = cc.IntField(default=0)
    item.hi = cc.IntField(default=10)

    @cc.validator(item)
    def lo_le_hi(cfg):
        if cfg.lo is not None and cfg.hi is not None and cfg.lo > cfg.hi:
            raise ValueError("lo must not exceed hi")
    schema = cc.Schema()
    schema.items = cc.ListField(cc.make_type(item, "Item", module=__name__) if case["configtype"] else item)
    schema.other = cc.IntField(default=1)
    cfg = schema()
    cfg.items = [{"lo": k, "hi": k + 5} for k in range(case["n"])]
    lst = cfg.items
    victim = lst[case["j"]]
    victim.lo = 99  # each field is fine on its own; the configuration as a whole is not
    before = worlds.snapshot(cfg, cc, with_ids=True)
    what, i = case["what"], case["i"]
    try:
        if what == "append":
            lst.append(victim)
        elif what == "insert":
            lst.insert(i, victim)
        elif what == "setitem":
            if not -len(lst) <= i < len(lst):
                return
            lst[i] = victim
        elif what == "extend1":
            lst.extend([victim])
        else:
            lst += [victim]
        raised = False
    except Exception:
        raised = True
    if not R.check(raised, "must-raise", "reoffer:" + what, "a configuration that violates its own schema was accepted by %s" % what):
        return
    R.label("judged:reoffer")
    after = worlds.snapshot(cfg, cc, with_ids=True)
    R.check(before == after, "unchanged", "reoffer:" + what, lambda: "a rejected %s(%r) of an item the list already holds changed the list: %s" % (what, i, worlds.diff(before, after)))
    R.nontrivial = True


def run_case(case, R):
    if case.get("mode") == "limit":
        return _limit_case(case, R)
    if case.get("mode") == "reoffer":
        return _reoffer_case(case, R)
    if case.get("mode") == "assign-object":
        return _assign_object_case(case, R)
    if case.get("mode") == "raw-key":
        return _raw_key_case(case, R)
    if case.get("mode") == "item-map":
        return _item_map_case(case, R)
    cc = sandbox._state["cc"]
    spec = case["spec"]
    with sandbox.CaseDir() as d:
        world = worlds.World(cc, spec)
        keyfile = os.path.join(d, "key")
        state = {"cfg": world.schema(key_filename=keyfile), "keyfile": keyfile}
        defaults = worlds.snapshot(state["cfg"], cc)
        leaves = ops.spec_leaves(spec)

        for op in case["ops"]:
            name = op["op"]
            cfg = state["cfg"]
            ops.prepare(world, state, op)
            if name in ("bad_doc", "bad_include"):
                # a configuration of a dynamic schema holds keys of its own (not in the schema) when the load fails
                for dpath, dnode in [((), spec)] + ops.spec_containers(spec):
                    if dnode.get("dynamic"):
                        try:
                            setattr(worlds.get_path(cfg, dpath), "zzdyn", "kept")
                            R.label("dynamic-key-before-failed-load")
                        except Exception:
                            pass
            before = worlds.snapshot(cfg, cc, with_ids=True)
            before_plain = worlds.snapshot(cfg, cc)
            fresh_before = _mask(worlds.snapshot(world.schema(key_filename=keyfile), cc)) if name == "ctor" else None
            judged = False
            depth = 0
            if name == "bad_doc":
                fmt = op["fmt"]
                tree = specs.realize(ops.resolve_tree(spec, op["tree"], world.ctx))
                if not ops.is_plain(tree, fmt):
                    continue
                doc = _mutate(cc.ConfigFormat.get(fmt).dumps(cfg, tree), op["mut"], fmt)
                # classification only: does the mutated document still parse? (a document that parses and is then
                # rejected half way - by validation or for an unknown key - is not one of the listed kinds)
                try:
                    parsed = isinstance(cc.ConfigFormat.get(fmt).loads(world.schema(key_filename=keyfile), doc), dict)
                except Exception:
                    parsed = False
                try:
                    cfg.loads(doc, fmt)
                    continue  # the mutated document still parses and loads: nothing failed
                except cc.ValidationError:
                    continue  # parsed, then rejected by validation half way: not a listed kind
                except Exception:
                    if parsed:
                        R.label("bad_doc:parsed-then-rejected")
                        continue
                    judged = True
                    depth = 1
            elif name == "bad_include":
                incs = [(p, n) for p, n in leaves if n["kind"] == "include"]
                ipath, _ = incs[op["inc"] % len(incs)]
                fmt = op["fmt"]
                tree = specs.realize(ops.resolve_tree(spec, op["tree"], world.ctx))
                node = tree
                for key in ipath[:-1]:
                    node = node.setdefault(key, {}) if isinstance(node.get(key, {}), dict) else None
                    if node is None:
                        break
                if node is None:
                    continue
                node[ipath[-1]] = specs.subst(op["target"])
                if not ops.is_plain(tree, fmt):
                    continue
                doc = cc.ConfigFormat.get(fmt).dumps(cfg, tree)
                try:
                    cfg.loads(doc, fmt)
                    continue
                except Exception as exc:
                    target = specs.subst(op["target"])
                    full = target if os.path.isabs(target) else os.path.join(sandbox.root(), "fs", target)
                    if target and os.path.isfile(full):
                        continue  # the include resolved; a later failure is a validation failure
                    judged = True
                    depth = len(ipath)
            elif name == "assign_sub_unknown":
                conts = ops.spec_containers(spec)
                spath, snode = conts[op["cont"] % len(conts)]
                if snode.get("dynamic"):
                    continue  # a dynamic schema takes the undeclared key
                tree = specs.realize(ops.resolve_tree(snode, op["tree"], world.ctx))
                tree = dict(tree) if isinstance(tree, dict) else {}
                tree["zz_not_declared"] = 1
                try:
                    ops.set_via(cfg, spath, tree, op["how"])
                    continue
                except Exception:
                    judged = True
                    depth = len(spath)
            else:
                out = ops.apply_op(world, state, op)
                if out.kind != "raised":
                    continue
                info = out.info
                if name in ("setattr", "setitem", "set_readonly", "assign_sub", "dyn_set"):
                    judged = True
                    depth = len(out.target or ()) - 1 + (1 if info.get("container") else 0)
                elif name == "ctor":
                    judged = True
                elif name == "listop" and info.get("what") in JUDGED_LIST:
                    judged, depth = True, 1
                elif name == "dictop" and info.get("what") in JUDGED_DICT:
                    judged, depth = True, 1
                elif name == "slistop" and info.get("what") in JUDGED_SLIST:
                    judged, depth = True, 1
            if not judged:
                continue
            R.label("judged:" + name)
            cfg = state["cfg"]
            after = worlds.snapshot(cfg, cc, with_ids=True)
            site = name + (":" + str(op.get("what") or op.get("how") or (op.get("mut") or {}).get("k") or "")).rstrip(":")
            if not R.check(before == after, "unchanged", site,
                           lambda: "a failed %s changed the configuration: %s" % (site, worlds.diff(before, after))):
                pass
            if name == "ctor":
                fresh_after = _mask(worlds.snapshot(world.schema(key_filename=keyfile), cc))
                R.check(fresh_before == fresh_after, "unchanged", "ctor:schema",
                        lambda: "a failed constructor call changed what the schema builds: %s" % worlds.diff(fresh_before, fresh_after))
            if before_plain != defaults and depth >= 1:
                R.nontrivial = True
