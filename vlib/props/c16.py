"""C16 — all ways of naming a field agree; command-line overrides touch only what's given."""
import os

from hypothesis import strategies as st

from .. import ops, refmodel, sandbox, specs, worlds
from ..refmodel import A, REJ, U

ID = "C16"
LEVEL = "exploration"
DESIGN_REF = "DESIGN.md §4 C16"
RULE = (
    "A case = (schema spec of depth <= 3 quick / 4 thorough and width <= 6 with identifier keys and an include field "
    "in every schema, a prefix history "
    "that puts the configuration into an arbitrary state, assignments addressed through enumerated paths, a command "
    "line = generated subset of the generated parser's options in --opt=value form with valid and invalid values "
    "(including the empty command line), and an ignore argument: None, one name or a list). Oracle: for every "
    "(path, owner, field) of get_all_fields(root): schema[path] is field, item_ref_path(field) == path, owner is "
    "the schema that holds it, config[path] equals chained attribute access, path in config for every field that "
    "stores a value, and config[path] = v has the same outcome and effect as chained setattr on a twin "
    "configuration; the parser's actions are exactly one store per str/int/float field and one store_true + one "
    "store_false per bool field (kinds known from the spec), each with dest == path and option string derived "
    "from the path, plus -h; after cmdline_args_override exactly the supplied, non-ignored options read as the "
    "reference normal form of their string and everything else - values and user-defined marks - is untouched; "
    "an invalid supplied value raises the library's ValidationError. Non-trivial = a bool field, depth >= 2 and "
    "a command line that supplies a strict non-empty subset of the options."
)
ASSUMPTIONS = [
    "enumeration is taken from the root schema/configuration (paths reported for a sub-schema are relative to its "
    "parent by construction; the statement quantifies over schemas)",
    "fields inside config types are not enumerated by get_all_fields and are outside this property's path set",
]
REQUIRED = ["cmdline:empty", "cmdline:subset", "ignore:none", "ignore:one", "ignore:list", "has:bool", "depth>=2",
            "arg:invalid", "arg:valid", "setitem-vs-setattr", "has:include", "schema-extended-after-enumeration", "parser:from-config-before-the-history"]
LEVEL_TEXT = (
    "Generated schemas, states and command lines; agreement of the naming routes is checked pairwise and the "
    "override against a reference model; kills mutants that ignore 'ignore', build dest with '-', or drop a prefix."
)
LEVEL_NOTE = "Trusted: CPython argparse, Hypothesis, vlib/refmodel.py, snapshot functions."
TECHNIQUE = "property-based testing (Hypothesis): pairwise agreement of routes + reference model for overrides"

STYPE = {"str": str, "ipv4": str, "ipv4net": str, "host": str, "url": str, "filename": str, "loglevel": str, "appmode": str,
         "secure": str, "include": str, "int": int, "port": int, "float": float, "bool": bool, "featureflag": bool}


def selftest():
    refmodel.selftest()


def budget(tier):
    if tier == "quick":
        return {"cases": 500, "shards": 3}
    return {"cases": 4000, "shards": 16}


def _enumerable(node, path=()):
    """(path, node) for every field get_all_fields reports: recurses into sub-schemas only."""
    out = []
    for child in node["children"]:
        cpath = path + (child["key"],)
        out.append((cpath, child))
        if child["kind"] == "appmode" and child.get("opts", {}).get("create_helpers", True):
            for mode in child.get("opts", {}).get("modes") or ["development", "production"]:
                if not any(p == path + ("is_%s_mode" % mode,) for p, _ in out):  # two mode fields may share helper names
                    out.append((path + ("is_%s_mode" % mode,), {"kind": "virtual", "key": "is_%s_mode" % mode, "helper": True}))
        if child["kind"] == "schema":
            out.extend(_enumerable(child, cpath))
    return out


def _echo_keys(spec):
    """Nested schemas reuse a key of their parent (db.port next to port): dotted paths that contain each other."""
    roots = [c["key"] for c in spec["children"] if c["kind"] in STYPE]
    if not roots:
        return spec
    kids = []
    for c in spec["children"]:
        if c["kind"] == "schema":
            used = {x["key"] for x in c["children"]}
            k = next((r for r in roots if r not in used), None)
            sub = []
            renamed = False
            for x in c["children"]:
                if not renamed and k and x["kind"] in STYPE:
                    for v in c["children"]:
                        if v["kind"] == "virtual" and v.get("of") == x["key"]:
                            v["of"] = k
                    x = dict(x, key=k)
                    renamed = True
                sub.append(x)
            c = dict(c, children=sub)
        kids.append(c)
    return dict(spec, children=kids)


UNDERSCORED = {"maxsize": "max_size", "userid": "user_id", "k1": "k__1", "tls": "tls_", "db": "db_", "level": "log_level", "flag": "flag_", "net": "net__cfg"}


def _underscore_keys(node):
    """Identifier keys with underscores - inner, doubled and trailing (a leading one would be a private attribute)."""
    kids = []
    for c in node["children"]:
        if c["kind"] in ("schema", "configtype", "schemalist"):
            c = _underscore_keys(c)
        new = UNDERSCORED.get(c["key"])
        if new and new not in {x["key"] for x in node["children"]}:
            for v in node["children"]:
                if v["kind"] == "virtual" and v.get("of") == c["key"]:
                    v["of"] = new
            c = dict(c, key=new)
        kids.append(c)
    return dict(node, children=kids)


def _with_includes(node, top=True):
    """An include field (a scalar string field like any other) at the root and in every nested schema."""
    inc = {"kind": "include", "key": "inc" if top else "include", "req": False, "validator": None, "opts": {"startdir": "$ROOT/fs"}, "default": {"mode": "none"}}
    kids = [_with_includes(c, False) if c["kind"] == "schema" else c for c in node["children"]]
    if inc["key"] not in {c["key"] for c in kids}:
        kids.append(inc)
    return dict(node, children=kids)


def strategy(tier):
    depth = 3 if tier == "quick" else 4

    def build(spec):
        fields = [(p, n) for p, n in _enumerable(spec) if n["kind"] in STYPE]
        leaves = [(p, n) for p, n in _enumerable(spec) if n["kind"] not in ("schema", "configtype", "virtual", "method", "schemalist")]
        if fields:
            arg = st.integers(0, len(fields) - 1).flatmap(lambda i: st.tuples(st.just(i), specs.values(fields[i][1]), st.booleans()))
            args = st.integers(0, 7).flatmap(lambda k: st.just([]) if k == 0 else st.lists(arg, min_size=1, max_size=min(k, 4)))
            ign = st.one_of(st.none(), st.none(), st.integers(0, len(fields) - 1).map(lambda i: [i]),
                            st.lists(st.integers(0, len(fields) - 1), max_size=3).map(lambda l: l + [-1]))
            # a supplied option whose path is contained in the path of an ignored one (port vs db.port)
            nested = [(i, j) for i, (pi, _) in enumerate(fields) for j, (pj, _) in enumerate(fields)
                      if i != j and ".".join(pi) in ".".join(pj)]
            if nested:
                def contained(pair):
                    i, j = pair
                    return st.tuples(st.lists(st.tuples(st.just(i), specs.values(fields[i][1]), st.booleans()), min_size=1, max_size=1), st.just([j]))
                both = st.sampled_from(nested).flatmap(contained)
                args_ign = ops.weighted((3, st.tuples(args, ign)), (1, both))
            else:
                args_ign = st.tuples(args, ign)
        else:
            args_ign = st.just(([], None))
        if leaves:
            assign = st.lists(st.integers(0, len(leaves) - 1).flatmap(lambda i: st.tuples(st.just(i), ops.value_for(leaves[i][1]))), max_size=3)
        else:
            assign = st.just([])
        return st.fixed_dictionaries({"spec": st.just(spec), "prefix": st.lists(ops.single_op(spec), max_size=6),
                                      "assign": assign, "args_ign": args_ign, "ignore_str": st.booleans(), "parser_from": st.sampled_from(["schema", "config-early"])}).map(
            lambda c: dict(c, args=c["args_ign"][0], ignore=c["args_ign"][1]))
    kinds = ["str", "int", "float", "port", "bool", "bool", "host", "loglevel", "appmode", "secure", "list", "dict", "bytes", "any",
             "challenge", "ipv4", "ipv4net", "url", "filename"]
    return worlds.schema_spec(tier, kinds=kinds, depth=depth, width=4 if tier == "quick" else 6, min_width=2,
                              allow=("schema", "schema", "schema", "configtype", "schemalist", "virtual", "method", "featureflag")).map(_with_includes).map(_underscore_keys).map(_echo_keys).flatmap(build)


def _option(path):
    return "--" + ".".join(path).replace(".", "-").replace("_", "-").lower()


def run_case(case, R):
    cc = sandbox._state["cc"]
    spec = case["spec"]
    with sandbox.CaseDir() as d:
        world = worlds.World(cc, spec)
        keyfile = os.path.join(d, "key")
        state = {"cfg": world.schema(key_filename=keyfile), "keyfile": keyfile}
        # a parser generated from the live configuration at start-up, before the state changes (the usual order: build the
        # parser, load the file, then apply the command line)
        try:
            early_parser = cc.generate_argparse_parser(state["cfg"])
        except Exception as exc:
            early_parser = exc
        for op in case["prefix"]:
            if op["op"] != "ctor":
                ops.apply_op(world, state, op)
        cfg = state["cfg"]
        enum = _enumerable(spec)
        want_paths = [".".join(p) for p, _ in enum]
        depth = max([len(p) for p, _ in enum] or [0])
        if depth >= 2:
            R.label("depth>=2")

        # ---- (a) enumeration and resolution -------------------------------------------------------------------
        for source, site in ((world.schema, "schema"), (cfg, "config")):
            listed = cc.get_all_fields(source)
            got_paths = [p for p, _, _ in listed]
            R.check(sorted(got_paths) == sorted(want_paths), "enumerate", site,
                    lambda: "get_all_fields(%s) paths %r, declared %r" % (site, got_paths, want_paths))
            for path, owner, field in listed:
                try:
                    same = world.schema[path]
                except Exception as exc:
                    same = exc
                R.check(same is field, "resolve", "schema-getitem", lambda: "schema[%r] is %r, enumeration reported %r" % (path, same, field))
                R.check(cc.item_ref_path(field) == path, "resolve", "ref-path", lambda: "item_ref_path = %r for enumerated path %r" % (cc.item_ref_path(field), path))
                key = path.rpartition(".")[2]
                R.check(isinstance(owner, cc.Schema) and owner._fields.get(key) is field, "resolve", "owner", "reported owner schema of %r does not hold the field" % path)
        for path, node in enum:
            dotted = ".".join(path)
            if node["kind"] == "method":
                continue
            try:
                chained = worlds.get_path(cfg, path)
                err1 = None
            except Exception as exc:
                chained, err1 = None, exc
            try:
                via = cfg[dotted]
                err2 = None
            except Exception as exc:
                via, err2 = None, exc
            R.check((err1 is None) == (err2 is None) and (via is chained or via == chained or (via != via and chained != chained)), "resolve", "config-getitem",
                    lambda: "config[%r] -> %r / %r, chained attributes -> %r / %r" % (dotted, via, err2, chained, err1))
            if node["kind"] not in ("virtual", "method"):
                R.check(dotted in cfg, "resolve", "contains", lambda: "%r in config is False for a field that stores a value" % dotted)
        R.check("definitely.not.there" not in cfg and "nope" not in cfg, "resolve", "contains-unknown", "unknown path reported as contained")
        for path, node in enum:
            ghost = ".".join(path[:-1] + ("zz_missing",))
            R.check(ghost not in cfg, "resolve", "contains-unknown", lambda: "%r in config is True although no such field exists" % ghost)

        # ---- dotted-path assignment == chained setattr (twin configurations) ---------------------------------------
        leaves = [(p, n) for p, n in enum if n["kind"] not in ("schema", "configtype", "virtual", "method", "schemalist")]
        if case["assign"] and leaves:
            R.label("setitem-vs-setattr")
            twin_a, twin_b = world.schema(key_filename=keyfile), world.schema(key_filename=keyfile)
            for idx, raw in case["assign"]:
                path, node = leaves[idx % len(leaves)]
                value = specs.realize(raw)
                outs = []
                for twin, how in ((twin_a, "setitem"), (twin_b, "setattr")):
                    try:
                        ops.set_via(twin, path, value, how)
                        outs.append("ok")
                    except Exception as exc:
                        outs.append(type(exc).__name__)
                R.check(outs[0] == outs[1], "assign-agree", "outcome", lambda: "config[%r] = %r -> %s, chained setattr -> %s" % (".".join(path), value, outs[0], outs[1]))
                sa, sb = worlds.snapshot(twin_a, cc), worlds.snapshot(twin_b, cc)
                from .c06 import _mask
                R.check(_mask(sa) == _mask(sb), "assign-agree", "effect", lambda: "dotted-path and attribute assignment of %r differ: %s" % (".".join(path), worlds.diff(_mask(sb), _mask(sa))))

        # ---- (b) the generated parser ---------------------------------------------------------------------------------
        parser = cc.generate_argparse_parser(world.schema)
        fields = [(p, n) for p, n in enum if n["kind"] in STYPE]
        expected = {}
        for path, node in fields:
            dotted = ".".join(path)
            if node["kind"] == "include":
                R.label("has:include")
            if STYPE[node["kind"]] is bool:
                R.label("has:bool")
                expected[(_option(path),)] = (dotted, "store_true")
                expected[("--no-" + _option(path)[2:],)] = (dotted, "store_false")
            else:
                expected[(_option(path),)] = (dotted, "store")
        actual = {}
        for act in parser._actions:
            if "-h" in act.option_strings:
                continue
            kind = type(act).__name__
            kind = {"_StoreAction": "store", "_StoreTrueAction": "store_true", "_StoreFalseAction": "store_false"}.get(kind, kind)
            actual[tuple(act.option_strings)] = (act.dest, kind)
        R.check(actual == expected, "parser", "actions",
                lambda: "parser actions differ: unexpected %r, missing %r" % ({k: v for k, v in actual.items() if expected.get(k) != v}, {k: v for k, v in expected.items() if actual.get(k) != v}))

        # ---- (c) override -------------------------------------------------------------------------------------------------
        argv, supplied = [], {}
        for idx, raw, flag in case["args"]:
            path, node = fields[idx % len(fields)]
            if (_option(path),) not in actual:
                continue
            if STYPE[node["kind"]] is bool:
                argv.append(_option(path) if flag else "--no-" + _option(path)[2:])
                supplied[path] = (node, flag)
            else:
                if isinstance(raw, str):
                    text = specs.subst(raw)
                elif isinstance(raw, bool) or not isinstance(raw, (int, float)):
                    text = repr(raw)
                else:
                    text = str(raw)
                argv.append("%s=%s" % (_option(path), text))
                supplied[path] = (node, text)
        ignore = None
        ignored = set()
        if case["ignore"] is not None and fields:
            names = []
            for i in case["ignore"]:
                if i == -1:
                    names.append("not.a.field")
                else:
                    names.append(".".join(fields[i % len(fields)][0]))
                    ignored.add(fields[i % len(fields)][0])
            if len(names) == 1 and case["ignore_str"]:
                ignore = names[0]
                R.label("ignore:one")
            else:
                ignore = names
                R.label("ignore:list")
        else:
            R.label("ignore:none")
        R.label("cmdline:empty" if not argv else "cmdline:subset")
        if case.get("parser_from") == "config-early":
            R.label("parser:from-config-before-the-history")
            if not R.check(not isinstance(early_parser, Exception), "parser", "from-config", lambda: "generate_argparse_parser(config) raised %r" % (early_parser,)):
                return
            early = {tuple(a.option_strings): (a.dest, type(a).__name__) for a in early_parser._actions if "-h" not in a.option_strings}
            late = {tuple(a.option_strings): (a.dest, type(a).__name__) for a in parser._actions if "-h" not in a.option_strings}
            R.check(early == late, "parser", "from-config:actions", lambda: "parser from the configuration differs from the parser from its schema: %r" % (set(early.items()) ^ set(late.items()),))
            parser = early_parser
        try:
            ns = parser.parse_args(argv)
        except SystemExit:
            R.fail("parser", "parse", "the generated parser rejected its own options: %r" % (argv,))
            return
        effective = {p: v for p, v in supplied.items() if p not in ignored}
        verdicts = {p: refmodel.ref(node, val, world.ctx) for p, (node, val) in effective.items()}
        for p, v in verdicts.items():
            R.label("arg:valid" if v[0] == A else "arg:invalid" if v[0] == REJ else "arg:unknown")
        before = worlds.snapshot(cfg, cc, with_ids=True)
        try:
            cc.cmdline_args_override(cfg, ns, ignore=ignore)
            err = None
        except Exception as exc:
            err = exc
        if any(v[0] == U for v in verdicts.values()):
            R.unknown += 1
            return
        must_fail = any(v[0] == REJ for v in verdicts.values())
        if must_fail:
            R.check(isinstance(err, cc.ValidationError), "override", "invalid-value",
                    lambda: "an invalid command-line value (%r) gave %r, not ValidationError" % ({".".join(p): effective[p][1] for p, v in verdicts.items() if v[0] == REJ}, err))
            return
        if not R.check(err is None, "override", "raises", lambda: "override with valid values %r raised %r" % (argv, err)):
            return
        after = worlds.snapshot(cfg, cc, with_ids=True)
        from .c01 import _without
        b2, a2 = before, after
        for p in effective:
            b2, a2 = _without(b2, p), _without(a2, p)
        R.check(b2 == a2, "override", "others-untouched",
                lambda: "argv %r ignore %r changed fields that were not supplied: %s" % (argv, ignore, worlds.diff(b2, a2)))
        for p, (node, val) in effective.items():
            got = worlds.get_path(cfg, p)
            R.check(ops.read_matches(node, got, verdicts[p]), "override", "value:" + node["kind"],
                    lambda: "%s=%r reads back %r, reference normal form %r" % (".".join(p), val, got, verdicts[p][1]))
            R.check(cc.is_value_defined(cfg, ".".join(p)), "override", "defined", "%s not user-defined after being overridden" % ".".join(p))
        if any(STYPE[n["kind"]] is bool for _, n in fields) and depth >= 2 and argv and len(effective) < len(fields):
            R.nontrivial = True

        # ---- (c1) the same parsed arguments applied once more, to a fresh configuration and without an ignore list: what was
        # ignored the first time is supplied all the same and is applied now
        all_verdicts = {p: refmodel.ref(node, val, world.ctx) for p, (node, val) in supplied.items()}
        if ignored & set(supplied) and all(v[0] == A for v in all_verdicts.values()):
            R.label("override:same-arguments-applied-again")
            again = world.schema(key_filename=keyfile)
            try:
                cc.cmdline_args_override(again, ns)
                err2 = None
            except Exception as exc:
                err2 = exc
            if R.check(err2 is None, "override", "again:raises", lambda: "the second application of the parsed arguments %r raised %r" % (argv, err2)):
                for p, (node, val) in supplied.items():
                    got = worlds.get_path(again, p)
                    R.check(ops.read_matches(node, got, all_verdicts[p]) and cc.is_value_defined(again, ".".join(p)), "override", "again:value",
                            lambda: "parsed arguments %r were applied with ignore=%r and then again without: %s reads %r, reference normal form %r" % (
                                argv, ignore, ".".join(p), got, all_verdicts[p][1]))

        # ---- (c2) an option supplied for a field whose environment variable is set: the override is an assignment like any other
        saved_env = {k: os.environ.pop(k) for k in list(os.environ) if k.startswith("CCV16")}
        try:
            es = cc.Schema(env="CCV16")
            es.port = cc.IntField(default=80)
            es.db.host = cc.HostnameField(default="localhost")
            es.db.debug = cc.BoolField(default=False)
            os.environ["CCV16_PORT"] = "8080"
            os.environ["CCV16_DB_HOST"] = "env.example"
            os.environ["CCV16_DB_DEBUG"] = "false"
            ecfg = es()
            eparser = cc.generate_argparse_parser(es)
            cc.cmdline_args_override(ecfg, eparser.parse_args(["--port=9090", "--db-host=cli.example", "--db-debug"]))
            got_env = (ecfg.port, ecfg.db.host, ecfg.db.debug)
            R.label("override:env-bound-fields")
            R.check(got_env == (9090, "cli.example", True), "override", "env-bound",
                    lambda: "options supplied for fields whose environment variables are set: fields read %r, want (9090, 'cli.example', True)" % (got_env,))
            # one set of parsed arguments serves several configurations, each with an ignore list of its own (in any order)
            ns2 = eparser.parse_args(["--port=7070", "--db-host=again.example", "--no-db-debug"])
            for ign in ("db.host", ["port", "db.debug"], ["db.host", "port", "db.debug"], None, "port", []):
                c = es()
                cc.cmdline_args_override(c, ns2, ignore=ign)
                names = [ign] if isinstance(ign, str) else list(ign or [])
                want = (8080 if "port" in names else 7070, "env.example" if "db.host" in names else "again.example", False)
                got2 = (c.port, c.db.host, c.db.debug)
                R.check(got2 == want, "override", "shared-arguments", lambda: "parsed arguments reused for another configuration with ignore=%r: fields read %r, want %r" % (ign, got2, want))
                R.check(cc.is_value_defined(c, "db.debug") == ("db.debug" not in names), "override", "shared-arguments:defined", lambda: "ignore=%r: db.debug user-defined=%r" % (ign, cc.is_value_defined(c, "db.debug")))
            # keys that are identifiers starting with an underscore (declared by item assignment): options are generated
            # for them like for any other key, and an override goes through the field, with its validation
            us = cc.Schema()
            us.db.host = cc.StringField(default="h")
            us["db._timeout"] = cc.IntField(default=5, max=60)
            us["_top"] = cc.IntField(default=1)
            uparser = cc.generate_argparse_parser(us)
            uopts = sorted(o for a in uparser._actions for o in a.option_strings if o not in ("-h", "--help"))
            R.label("override:underscore-keys")
            if R.check(uopts == ["---top", "--db--timeout", "--db-host"], "parser", "underscore-keys", lambda: "options for keys starting with an underscore: %r" % (uopts,)):
                ucfg = us()
                cc.cmdline_args_override(ucfg, uparser.parse_args(["--db--timeout", "7", "---top", "9"]))
                seen = (ucfg["db._timeout"], ucfg["_top"], ucfg.to_tree())
                R.check(seen == (7, 9, {"db": {"host": "h", "_timeout": 7}, "_top": 9}), "override", "underscore-keys",
                        lambda: "--db--timeout 7 ---top 9: the configuration reads %r" % (seen,))
                R.check(cc.is_value_defined(ucfg, "db._timeout") and not cc.is_value_defined(ucfg, "db.host"), "override", "underscore-keys:defined", "user-defined marks are off")
                ucfg2 = us()
                try:
                    cc.cmdline_args_override(ucfg2, uparser.parse_args(["--db--timeout", "600"]))
                    R.fail("override", "underscore-keys:invalid-accepted", "--db--timeout 600 (max 60) was accepted: %r" % (ucfg2.to_tree(),))
                except cc.ValidationError:
                    R.check(ucfg2["db._timeout"] == 5, "override", "underscore-keys:invalid-kept", "a rejected override changed the value")
        except Exception as exc:
            R.fail("override", "env-bound:raises", "override of env-bound fields raised %r" % (exc,))
        finally:
            for k in [k for k in os.environ if k.startswith("CCV16")]:
                del os.environ[k]
            os.environ.update(saved_env)

        # ---- (d) the schema grows after it has been enumerated: every view must follow ---------------------------------
        # round 1 touches nested schemas only (the root schema object itself is not written to), round 2 the root
        nested_scopes = [p for p, n in enum if n["kind"] == "schema"]
        plain_scopes = {()} | set(nested_scopes)
        simple = [(p, n) for p, n in enum if n["kind"] in ("int", "str", "bool") and p[:-1] in plain_scopes]
        rounds = [(sorted(nested_scopes, key=len, reverse=True), [t for t in simple if len(t[0]) > 1][:2]), ([()], [t for t in simple if len(t[0]) == 1][:1])]
        for rno, (scopes, replaced) in enumerate(rounds):
            cc.get_all_fields(world.schema)  # (an enumeration from the root precedes every extension)
            cc.generate_argparse_parser(world.schema)
            late = []
            for sp in scopes:
                owner = world.schema
                for k in sp:
                    owner = owner._fields[k]
                # (the field object was created with a key of its own; the name it is attached under is what counts)
                new = cc.IntField(default=3, key="made_as_%d" % rno) if len(sp) % 2 == 0 else cc.IntField(default=3)
                setattr(owner, "zzlate%d" % rno, new)
                late.append((".".join(sp + ("zzlate%d" % rno,)), new))
            for p, n in replaced:
                owner = world.schema
                for k in p[:-1]:
                    owner = owner._fields[k]
                new = cc.IntField(default=4)
                setattr(owner, p[-1], new)  # the key is declared again with another field object
                late.append((".".join(p), new))
            if not late:
                continue
            R.label("schema-extended-after-enumeration")
            listed = {p: f for p, _, f in cc.get_all_fields(world.schema)}
            dests2 = {a.dest for a in cc.generate_argparse_parser(world.schema)._actions}
            fresh = world.schema()
            for dotted, new in late:
                R.check(listed.get(dotted) is new, "enumerate", "after-extension", lambda: "after %s was declared, get_all_fields reports %r for it" % (dotted, listed.get(dotted)))
                try:
                    same = world.schema[dotted]
                except Exception as exc:
                    same = exc
                R.check(same is new, "resolve", "after-extension", lambda: "schema[%r] is %r, the declared field is %r" % (dotted, same, new))
                R.check(cc.item_ref_path(new) == dotted, "resolve", "ref-path:after-extension", lambda: "item_ref_path = %r for the field declared as %r" % (cc.item_ref_path(new), dotted))
                R.check(dotted in dests2, "parser", "after-extension", lambda: "no option with destination %r in a parser generated after the field was declared" % dotted)
                R.check(dotted in fresh, "resolve", "contains:after-extension", lambda: "%r not in a configuration built after the field was declared" % dotted)
