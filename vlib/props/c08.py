"""C08 — ciphers invert exactly; AES is standard with a fresh IV; bad input is rejected."""
import base64
import os

from hypothesis import strategies as st

from .. import aesref, sandbox
from ..codec import Opaque

ID = "C08"
LEVEL = "exploration"
DESIGN_REF = "DESIGN.md §4 C08"
RULE = (
    "Cases: (32-byte key incl. all-zero/repeating/one-byte-different pairs, plaintext bytes with lengths "
    "biased to block and key boundaries {0,1,15,16,17,31,32,33,47,48,64,65,...} incl. non-UTF-8, method in "
    "{aes,xor,best}) and malformed inputs for KeyFile.decrypt / SecureField.to_python / load_tree (too-short "
    "or non-block-aligned AES ciphertext, unknown/missing/non-string method, wrong value shapes, base64 "
    "that is invalid even for a lenient decoder). Oracle: decrypt(encrypt(p)) == p on the same object, a new "
    "KeyFile object and bare provider objects; method recorded is aes|xor; AES blob = 16-byte IV || body of "
    "16*(len//16+1) bytes which an independent pure-Python AES-256-CBC/PKCS7 decrypts to p, and the library "
    "decrypts a reference-encrypted blob; two encryptions differ in IV and body; a different key raises or "
    "yields != p; XOR == p[i]^k[i%32] and is an involution; every malformed input raises. Non-trivial = "
    "len(p) > 32 and not a multiple of 16, or a malformed input that passes the first shape check."
)
ASSUMPTIONS = [
    "vlib/aesref.py is a correct AES (self-tested on FIPS-197 C.1/C.3 and SP 800-38A F.2.5/F.2.6 at start-up)",
    "coincidence bound for fresh-IV / wrong-key clauses: 2^-128 (IV) and < 2^-8 per case only for the "
    "'wrong key returns a different value' disjunct, which is why that clause accepts raise OR different value",
]
REQUIRED = ["mode:aes-blob", "blob:drop-blocks", "blob:fake-pad", "mode:cipher", "mode:bad-decrypt", "mode:bad-stored", "method:aes", "method:xor", "method:best",
            "len>32-unaligned", "non-utf8"]
LEVEL_TEXT = (
    "Generated-input search over keys x plaintexts x methods with an independent cipher implementation as the "
    "oracle (interop both ways), plus generated malformed stored values that must be rejected. Evidence of the "
    "property on the explored inputs; kills constant-IV / non-cycled XOR / weakened length guard / ECB mutants."
)
LEVEL_NOTE = "Trusted: CPython, Hypothesis, vlib/aesref.py (NIST vectors checked on every run)."
TECHNIQUE = "property-based testing (Hypothesis): round-trip + differential against an independent AES reference"

LENGTHS = [0, 1, 2, 15, 16, 17, 31, 32, 33, 47, 48, 49, 63, 64, 65, 100, 255, 256, 1000]


def selftest():
    aesref.selftest()


# thorough tier: coverage-guided campaigns (atheris/libFuzzer over this module's strategy, cincoconfig instrumented)
FUZZ = {"runs": 30000, "campaigns": 4}


def budget(tier):
    if tier == "quick":
        return {"cases": 1500, "shards": 2}
    return {"cases": 12000, "shards": 16}


def _keys():
    rnd = st.binary(min_size=32, max_size=32)
    structured = st.one_of(
        st.just(b"\x00" * 32), st.just(b"\xff" * 32), st.just(bytes(range(32))),
        st.builds(lambda b: b * 32, st.binary(min_size=1, max_size=1)),
        st.builds(lambda b: (b * 2), st.binary(min_size=16, max_size=16)),
    )
    return st.one_of(rnd, structured)


def _key_pair():
    def other(k):
        flip = st.tuples(st.integers(0, 31), st.integers(1, 255)).map(
            lambda t: k[:t[0]] + bytes([k[t[0]] ^ t[1]]) + k[t[0] + 1:])
        rnd = st.binary(min_size=32, max_size=32).filter(lambda x: x != k)
        return st.tuples(st.just(k), st.one_of(flip, rnd))
    return _keys().flatmap(other)


def _plaintext():
    sized = st.sampled_from(LENGTHS).flatmap(lambda n: st.binary(min_size=n, max_size=n))
    texty = st.text(max_size=70).map(lambda s: s.encode())
    pat = st.sampled_from(LENGTHS).map(lambda n: (b"A" * n))
    return st.one_of(sized, sized, texty, pat, st.binary(max_size=80))


def strategy(tier):
    cipher = st.fixed_dictionaries({
        "mode": st.just("cipher"), "keys": _key_pair(), "plain": _plaintext(),
        "method": st.sampled_from(["aes", "xor", "best"]), "as_str": st.booleans(),
        "iv": st.binary(min_size=16, max_size=16),
    })
    b64chars = "ABCDEFGHIJKLMNOPQRSTUVWXYZabcdefghijklmnopqrstuvwxyz0123456789+/"
    bad_method = st.one_of(st.none(), st.just(""), st.sampled_from(["AES", "Xor", "rot13", "aes ", "des", "none", "0"]),
                           st.text(max_size=5).filter(lambda s: s not in ("aes", "xor", "best")),
                           st.integers(0, 3), st.just(["aes"]), st.just(1.5), st.just(False))
    bad_decrypt = st.fixed_dictionaries({
        "mode": st.just("bad-decrypt"), "key": _keys(), "plain": _plaintext(),
        "what": st.one_of(
            st.fixed_dictionaries({"k": st.just("short"), "n": st.integers(0, 31)}),
            st.fixed_dictionaries({"k": st.just("extend"), "n": st.integers(1, 15), "pad": st.binary(min_size=15, max_size=15)}),
            st.fixed_dictionaries({"k": st.just("chop"), "n": st.integers(1, 15)}),
            st.fixed_dictionaries({"k": st.just("method"), "m": bad_method.filter(lambda m: isinstance(m, str) or m is None)}),
        ),
    })
    junk = st.one_of(st.integers(), st.floats(allow_nan=False), st.booleans(), st.binary(max_size=8),
                     st.lists(st.integers(), max_size=3), st.tuples(st.text(max_size=3), st.text(max_size=3)),
                     st.just(Opaque("object")), st.just({"a", "b"}))
    bad_b64 = st.builds(lambda body, tail: body + tail,
                        st.text(st.sampled_from(b64chars), min_size=0, max_size=40).map(lambda s: s[:len(s) - len(s) % 4]),
                        st.text(st.sampled_from(b64chars), min_size=1, max_size=1))
    bad_stored = st.fixed_dictionaries({
        "mode": st.just("bad-stored"), "key": _keys(), "plain": st.text(min_size=1, max_size=40),
        "method": st.sampled_from(["aes", "xor"]),
        "what": st.one_of(
            st.fixed_dictionaries({"k": st.just("shape"), "v": junk}),
            st.fixed_dictionaries({"k": st.just("no-method")}),
            st.fixed_dictionaries({"k": st.just("bad-method"), "m": bad_method}),
            st.fixed_dictionaries({"k": st.just("no-ciphertext")}),
            st.fixed_dictionaries({"k": st.just("ciphertext-type"), "v": st.one_of(st.none(), junk.filter(lambda j: not isinstance(j, str)))}),
            st.fixed_dictionaries({"k": st.just("bad-b64"), "v": bad_b64}),
            st.fixed_dictionaries({"k": st.just("b64-damaged"), "n": st.integers(0, 3)}),
            st.fixed_dictionaries({"k": st.just("b64-damaged"), "n": st.integers(0, 3)}),
            st.fixed_dictionaries({"k": st.just("short"), "n": st.integers(0, 31)}),
            st.fixed_dictionaries({"k": st.just("extend"), "n": st.integers(1, 15)}),
            st.fixed_dictionaries({"k": st.just("chop"), "n": st.integers(1, 15)}),
            st.fixed_dictionaries({"k": st.just("extra-keys"), "v": junk}),
        ),
    })
    # block-aligned blobs of >= 32 bytes that are NOT honest ciphertexts: truncated by whole blocks, random, or
    # reference-encrypted data whose final bytes only look like padding. Here the standard (reference) decryption is
    # the oracle: it either yields a value (then the library must yield the same) or rejects (then so must the library).
    blob = st.fixed_dictionaries({
        "mode": st.just("aes-blob"), "key": _keys(), "plain": st.one_of(_plaintext(), st.sampled_from(LENGTHS).map(lambda n: b"line\n" * (n // 5 + 1))),
        "iv": st.binary(min_size=16, max_size=16),
        "what": st.one_of(
            st.fixed_dictionaries({"k": st.just("drop-blocks"), "n": st.integers(1, 4)}),
            st.fixed_dictionaries({"k": st.just("random"), "data": st.integers(2, 5).flatmap(lambda b: st.binary(min_size=16 * b, max_size=16 * b))}),
            st.fixed_dictionaries({"k": st.just("fake-pad"), "last": st.integers(1, 16), "junk": st.binary(min_size=15, max_size=15)}),
            st.fixed_dictionaries({"k": st.just("flip-last-block"), "bit": st.integers(0, 127)}),
        ),
    })
    return st.one_of(cipher, cipher, cipher, bad_decrypt, bad_stored, blob, blob)


def _realize(v):
    return object() if isinstance(v, Opaque) else v


def _write_key(d, name, key):
    path = os.path.join(d, name)
    with open(path, "wb") as fp:
        fp.write(key)
    return path


def _cipher(case, R, d):
    cc = sandbox._state["cc"]
    from cincoconfig.encryption import AesProvider, XorProvider

    key, key2 = case["keys"]
    p = case["plain"]
    method = case["method"]
    R.label("method:" + method)
    if len(p) > 32 and len(p) % 16:
        R.label("len>32-unaligned")
        R.nontrivial = True
    try:
        p.decode()
        utf8 = True
    except UnicodeDecodeError:
        utf8 = False
        R.label("non-utf8")
    arg = p.decode() if (case["as_str"] and utf8) else p

    kf = cc.KeyFile(_write_key(d, "k1", key))
    with kf as ctx:
        sv = ctx.encrypt(arg, method=method)
        sv_b = ctx.encrypt(arg, method=method)
        back = ctx.decrypt(sv)
    concrete = sv.method
    if not R.check(concrete in ("aes", "xor"), "concrete", method, "recorded method %r" % (concrete,)):
        return
    expect = "xor" if method == "xor" else "aes"
    R.check(concrete == expect, "concrete", method, "method %r resolved to %r" % (method, concrete))
    # ... for EVERY value of a session, not only the first one
    R.check(sv_b.method == expect, "concrete", method + ":second-in-session", "the second value encrypted in one session records method %r" % (sv_b.method,))
    R.check(isinstance(sv.ciphertext, bytes), "ciphertext-type", concrete, type(sv.ciphertext).__name__)
    R.check(back == p, "invert", concrete + ":same-object", lambda: "decrypt(encrypt(%r)) = %r" % (p, back))

    # new key-file object == new session
    kf2 = cc.KeyFile(kf.filename)
    with kf2 as ctx:
        back2 = ctx.decrypt(cc.fields.SecureValue(concrete, sv.ciphertext))
        if method == "best":
            back3 = ctx.decrypt(cc.fields.SecureValue("best", sv.ciphertext))
            R.check(back3 == p, "invert", "best:decrypt-with-best", lambda: "%r" % (back3,))
    R.check(back2 == p, "invert", concrete + ":new-session", lambda: "new KeyFile decrypts %r to %r" % (p, back2))

    # bare providers
    prov = AesProvider(key) if concrete == "aes" else XorProvider(key)
    c3 = prov.encrypt(p)
    prov2 = AesProvider(key) if concrete == "aes" else XorProvider(key)
    R.check(prov2.decrypt(c3) == p, "invert", concrete + ":provider", "provider round trip")
    R.check(prov2.decrypt(sv.ciphertext) == p, "invert", concrete + ":provider-x-keyfile", "provider decrypts KeyFile output")

    if concrete == "aes":
        ct = sv.ciphertext
        want_len = 16 + 16 * (len(p) // 16 + 1)
        R.check(len(ct) == want_len, "aes-format", "length", "len(ct)=%d for len(p)=%d, want %d" % (len(ct), len(p), want_len))
        try:
            ref = aesref.decrypt(key, ct)
        except ValueError as exc:
            ref = exc
        R.check(ref == p, "aes-format", "reference-decrypts", lambda: "reference AES-256-CBC/PKCS7 gives %r for %r" % (ref, p))
        blob = aesref.encrypt(key, case["iv"], p)
        with cc.KeyFile(kf.filename) as ctx:
            try:
                got = ctx.decrypt(cc.fields.SecureValue("aes", blob))
            except Exception as exc:
                got = exc
        R.check(got == p, "aes-format", "library-decrypts-reference", lambda: "library gives %r for reference blob of %r" % (got, p))
        # fresh IV
        R.check(sv.ciphertext[:16] != sv_b.ciphertext[:16], "fresh-iv", "iv", "two encryptions share the IV")
        R.check(sv.ciphertext[16:] != sv_b.ciphertext[16:], "fresh-iv", "body", "two encryptions share the body")
        R.check(c3[:16] not in (sv.ciphertext[:16], sv_b.ciphertext[:16]), "fresh-iv", "iv-provider", "provider reused an IV")
        # ... also when the application re-seeds the process-wide PRNG before each encryption
        import random
        prng_state = random.getstate()
        try:
            ivs = []
            for _ in range(2):
                random.seed(20240917)
                ivs.append(AesProvider(key).encrypt(p)[:16])
        finally:
            random.setstate(prng_state)
        R.check(ivs[0] != ivs[1], "fresh-iv", "prng-reseeded", "after random.seed(k) the same IV is used again: the IV is predictable")
        # wrong key
        with cc.KeyFile(_write_key(d, "k2", key2)) as ctx:
            try:
                wrong = ctx.decrypt(sv)
            except Exception:
                wrong = None
        R.check(wrong is None or wrong != p, "wrong-key", "aes", "a different key decrypted the value")
    else:
        want = bytes(b ^ key[i % 32] for i, b in enumerate(p))
        R.check(sv.ciphertext == want, "xor-law", "encrypt", lambda: "xor ciphertext %r != p^k %r" % (sv.ciphertext, want))
        R.check(sv_b.ciphertext == want, "xor-law", "deterministic", "second xor encryption differs")
        R.check(XorProvider(key).encrypt(XorProvider(key).encrypt(p)) == p, "xor-law", "involution", "xor twice != identity")
        if p:
            with cc.KeyFile(_write_key(d, "k2", key2)) as ctx:
                wrong = ctx.decrypt(sv)
            if len(p) >= 32 or any(key[i % 32] != key2[i % 32] for i in range(len(p))):
                R.check(wrong != p, "wrong-key", "xor", "a different key decrypted the value")

    # SecureField level: stored form round trip across configurations (str secrets only)
    if utf8 and p:
        text = p.decode()
        schema = cc.Schema()
        schema.s = cc.SecureField(method=method)
        cfg = schema(key_filename=kf.filename)
        stored = schema.s.to_basic(cfg, text)
        ok = isinstance(stored, dict) and stored.get("method") in ("aes", "xor") and isinstance(stored.get("ciphertext"), str)
        if R.check(ok, "stored-shape", method, "to_basic gave %r" % (stored,)):
            cfg2 = schema(key_filename=kf.filename)
            got = schema.s.to_python(cfg2, stored)
            R.check(got == text, "invert", "securefield", lambda: "to_python(to_basic(%r)) = %r" % (text, got))
            raw = base64.b64decode(stored["ciphertext"])
            with cc.KeyFile(kf.filename) as ctx:
                R.check(ctx.decrypt(cc.fields.SecureValue(stored["method"], raw)) == p, "invert", "securefield-raw", "raw")


def _must_raise(R, clause, site, fn, desc):
    try:
        val = fn()
    except Exception:  # rejection by any error type is what the property promises
        R.checks += 1
        return True
    R.fail(clause, site, "%s returned %r instead of raising" % (desc, val))
    return False


def _bad_decrypt(case, R, d):
    cc = sandbox._state["cc"]
    key, p, what = case["key"], case["plain"], case["what"]
    kf = cc.KeyFile(_write_key(d, "k1", key))
    with kf as ctx:
        good = ctx.encrypt(p, method="aes").ciphertext
    k = what["k"]
    R.label("bad:" + k)
    if k == "short":
        ct = good[:what["n"]]
        method = "aes"
    elif k == "extend":
        ct = good + what["pad"][:what["n"]]
        method = "aes"
        R.nontrivial = True
    elif k == "chop":
        ct = good[:len(good) - what["n"]]
        method = "aes"
        if len(ct) >= 32:
            R.nontrivial = True
    else:
        ct = good
        method = what["m"]
    for name in ("aes", "best") if method == "aes" else (method,):
        with cc.KeyFile(kf.filename) as ctx:
            _must_raise(R, "reject", "keyfile.decrypt:" + k, lambda: ctx.decrypt(cc.fields.SecureValue(name, ct)),
                        "KeyFile.decrypt(method=%r, %d-byte ciphertext)" % (name, len(ct)))
            if k == "method":
                _must_raise(R, "reject", "keyfile.encrypt:method", lambda: ctx.encrypt(p, method=name),
                            "KeyFile.encrypt(method=%r)" % (name,))
    if method == "aes":
        from cincoconfig.encryption import AesProvider
        _must_raise(R, "reject", "aesprovider.decrypt:" + k, lambda: AesProvider(key).decrypt(ct),
                    "AesProvider.decrypt(%d bytes)" % len(ct))


def _bad_stored(case, R, d):
    cc = sandbox._state["cc"]
    key, text, what = case["key"], case["plain"], case["what"]
    keyfile = _write_key(d, "k1", key)
    schema = cc.Schema()
    schema.s = cc.SecureField(method=case["method"])
    schema.other = cc.IntField(default=3)
    cfg = schema(key_filename=keyfile)
    good = schema.s.to_basic(cfg, text)
    raw = base64.b64decode(good["ciphertext"])
    k = what["k"]
    R.label("bad:" + k)
    aes = good["method"] == "aes"
    if k == "shape":
        value = _realize(what["v"])
    elif k == "no-method":
        value = {"ciphertext": good["ciphertext"]}
    elif k == "bad-method":
        value = {"method": what["m"], "ciphertext": good["ciphertext"]}
        R.nontrivial = True
    elif k == "no-ciphertext":
        value = {"method": good["method"]}
    elif k == "ciphertext-type":
        value = {"method": good["method"], "ciphertext": _realize(what["v"])}
    elif k == "bad-b64":
        value = {"method": good["method"], "ciphertext": what["v"]}
        R.nontrivial = True
    elif k == "b64-damaged":
        # the stored text itself is damaged: its padding was stripped, or it was cut short (not a whole number of
        # base64 quanta any more) - the wrong encoding, to be rejected, never "repaired"
        text = good["ciphertext"]
        cut = text.rstrip("=") if what["n"] == 0 else text.rstrip("=")[:-what["n"]]
        while cut and len(cut) % 4 == 0:
            cut = cut[:-1]
        if not cut or cut == text:
            return
        value = {"method": good["method"], "ciphertext": cut}
        R.nontrivial = True
    elif k in ("short", "extend", "chop"):
        # length faults only concern block ciphers
        with cc.KeyFile(keyfile) as ctx:
            raw = ctx.encrypt(text, method="aes").ciphertext
        if k == "short":
            raw = raw[:what["n"]]
        elif k == "extend":
            raw = raw + b"\x10" * what["n"]
        else:
            raw = raw[:len(raw) - what["n"]]
        value = {"method": "aes", "ciphertext": base64.b64encode(raw).decode()}
        R.nontrivial = True
        aes = True
    else:  # extra keys do not make a well-formed value malformed: it must still decrypt
        value = dict(good, extra=_realize(what["v"]) if not isinstance(what["v"], set) else 1)
        got = schema.s.to_python(schema(key_filename=keyfile), value)
        R.check(got == text, "invert", "securefield-extra-keys", "got %r" % (got,))
        return
    cfg2 = schema(key_filename=keyfile)
    cfg2.s = "previous"
    _must_raise(R, "reject", "to_python:" + k, lambda: schema.s.to_python(cfg2, value),
                "SecureField.to_python(%r)" % (value,))
    if not (k == "shape" and isinstance(value, (str, type(None)))):
        ok = _must_raise(R, "reject", "load_tree:" + k, lambda: cfg2.load_tree({"s": value, "other": 9}),
                         "load_tree with stored secret %r" % (value,))
        R.check(cfg2.s == "previous", "reject", "load_tree-kept:" + k, "secret became %r after a rejected load" % (cfg2.s,))
    # the rejection happens INSIDE a session that stays open (the configuration's own key context, held by the caller):
    # that session must go on inverting exactly afterwards
    cfg3 = schema(key_filename=keyfile)
    with cfg3._keyfile as outer:
        before = outer.encrypt(text, method="aes")
        try:
            schema.s.to_python(cfg3, value)
        except Exception:
            pass
        try:
            back = outer.decrypt(before)
            again = outer.decrypt(outer.encrypt(text, method=case["method"]))
        except Exception as exc:
            back = again = exc
        want = text.encode() if isinstance(text, str) else text
        R.check(back == want and again == want, "invert", "open-session-after-reject:" + k,
                lambda: "inside a still open session, after SecureField.to_python rejected a damaged value: decrypt gives %r / %r, want %r" % (back, again, want))


def _aes_blob(case, R, d):
    cc = sandbox._state["cc"]
    from cincoconfig.encryption import AesProvider
    key, p, what = case["key"], case["plain"], case["what"]
    k = what["k"]
    R.label("blob:" + k)
    honest = aesref.encrypt(key, case["iv"], p)
    if k == "drop-blocks":
        blob = honest[: max(len(honest) - 16 * what["n"], 32)]
    elif k == "random":
        blob = what["data"]
    elif k == "fake-pad":
        # final plaintext block ends in a byte 1..16 but the bytes before it are not padding
        body = (p + what["junk"])[: 16 * ((len(p) + 15) // 16 + 1) - 1] if p else what["junk"]
        body = body[: max(len(body) // 16 * 16 - 1, 15)] + bytes([what["last"]])
        body = body[-(len(body) // 16 * 16):] if len(body) % 16 else body
        body = body.rjust(16, b"x") if len(body) < 16 else body[: len(body) // 16 * 16]
        blob = case["iv"] + aesref.cbc_encrypt_raw(key, case["iv"], body)
    else:
        i = what["bit"]
        blob = honest[:-16] + bytes([honest[-16 + i // 8] ^ (1 << (i % 8)) if j == i // 8 else honest[-16 + j] for j in range(16)])
    if len(blob) < 32 or len(blob) % 16:
        return
    try:
        want = ("ok", aesref.decrypt(key, blob))
    except ValueError:
        want = ("reject", None)
    R.nontrivial = True
    for site, fn in (("aesprovider", lambda: AesProvider(key).decrypt(blob)),
                     ("keyfile", lambda: _kf_decrypt(cc, d, key, blob))):
        try:
            got = ("ok", fn())
        except Exception:
            got = ("reject", None)
        R.check(got == want, "aes-standard", site + ":" + k,
                lambda: "%d-byte blob (%s): standard AES-256-CBC/PKCS7 says %r, library says %r" % (len(blob), k, want, got))


def _kf_decrypt(cc, d, key, blob):
    with cc.KeyFile(_write_key(d, "kb", key)) as ctx:
        return ctx.decrypt(cc.fields.SecureValue("aes", blob))


def exhaustive(tier):
    """Fresh IVs across a fork: a process that has already encrypted forks; parent and child keep encrypting the same text."""
    for warm in (0, 1, 5):
        for n in (1, 4, 40):
            yield {"mode": "fork-iv", "warm": warm, "n": n}
    # every history of up to four key-file states seen by one long-lived KeyFile object, per method
    import itertools
    for method in ("aes", "xor", "best"):
        for length in (1, 2, 3, 4):
            for steps in itertools.product(("valid", "short", "missing", "genkey") if length == 4 else ("valid", "short", "long", "missing", "genkey"), repeat=length):
                yield {"mode": "key-history", "method": method, "steps": list(steps)}


def _key_history(case, R):
    """One long-lived KeyFile object lives through a history of key-file states (between its sessions): after every step
    that leaves a valid key file, what it encrypts is decrypted by a new object for the same path and the other way
    round, and what was encrypted under an earlier, different key does not come back as the plaintext."""
    cc = sandbox._state["cc"]
    method = case["method"]
    p = b"inversion across objects and sessions \xff\x00 with some length to it"
    R.nontrivial = True
    with sandbox.CaseDir() as d:
        path = os.path.join(d, "history.key")
        old = cc.KeyFile(path)
        earlier = []  # (key, value) encrypted under keys the file held before
        for n, step in enumerate(case["steps"]):
            if step == "valid":
                with open(path, "wb") as fp:
                    fp.write(bytes((i * 7 + n * 31 + 3) % 256 for i in range(32)))
            elif step == "short":
                with open(path, "wb") as fp:
                    fp.write(b"k" * 31)
            elif step == "long":
                with open(path, "wb") as fp:
                    fp.write(b"k" * 33)
            elif step == "missing":
                if os.path.exists(path):
                    os.unlink(path)
            else:
                old.generate_key()
            good = step in ("valid", "missing", "genkey")
            try:
                with old as ctx:
                    mine = ctx.encrypt(p, method=method)
                    opened = True
            except Exception as exc:
                opened, mine = False, exc
            if not good:
                R.check(not opened, "reject", "key-history:malformed", "a session opened on a %s key file" % step)
                continue
            where = "step %d (%s) of %r" % (n, step, case["steps"])
            if not R.check(opened, "invert", "key-history:open", lambda: "at %s the long-lived object could not encrypt: %r" % (where, mine)):
                return
            key_now = open(path, "rb").read()
            try:
                with cc.KeyFile(path) as fresh:
                    theirs = fresh.encrypt(p, method=method)
                    back = fresh.decrypt(mine)
                with old as ctx:
                    back2 = ctx.decrypt(theirs)
                    stale = []
                    for k, sv in earlier:
                        if k != key_now:
                            try:
                                stale.append(ctx.decrypt(sv))
                            except Exception:
                                stale.append(None)
            except Exception as exc:
                R.fail("invert", "key-history:raises", "at %s: %r" % (where, exc))
                return
            R.check(back == p, "invert", "key-history:new-object-decrypts", lambda: "at %s a new KeyFile decrypts the long-lived object's value to %r" % (where, back))
            R.check(back2 == p, "invert", "key-history:old-object-decrypts", lambda: "at %s the long-lived object decrypts a new KeyFile's value to %r" % (where, back2))
            R.check(p not in stale, "wrong-key", "key-history", lambda: "at %s a value encrypted under an earlier, different key still decrypts to the plaintext" % where)
            earlier.append((key_now, mine))


def _fork_iv(case, R):
    from cincoconfig.encryption import AesProvider
    key = bytes(range(32))
    text = b"the same plaintext in both processes"
    for _ in range(case["warm"]):
        AesProvider(key).encrypt(text)
    n = case["n"]
    rfd, wfd = os.pipe()
    pid = os.fork()
    if pid == 0:  # child: encrypt n times, hand the IVs to the parent, leave without running any clean-up
        try:
            os.close(rfd)
            os.write(wfd, b"".join(AesProvider(key).encrypt(text)[:16] for _ in range(n)))
        finally:
            os._exit(0)
    os.close(wfd)
    mine = [AesProvider(key).encrypt(text)[:16] for _ in range(n)]
    data = b""
    while True:
        chunk = os.read(rfd, 65536)
        if not chunk:
            break
        data += chunk
    os.close(rfd)
    os.waitpid(pid, 0)
    theirs = [data[i:i + 16] for i in range(0, len(data), 16)]
    R.nontrivial = True
    if not R.check(len(theirs) == n, "fresh-iv", "fork:child", "the forked child delivered %d IVs, expected %d" % (len(theirs), n)):
        return
    common = set(mine) & set(theirs)
    R.check(not common and len(set(mine)) == n and len(set(theirs)) == n, "fresh-iv", "fork",
            lambda: "after a fork, parent and child used %d common IV(s) for the same plaintext (equal ciphertexts)" % len(common))


def run_case(case, R):
    R.label("mode:" + case["mode"])
    if case["mode"] == "fork-iv":
        return _fork_iv(case, R)
    if case["mode"] == "key-history":
        return _key_history(case, R)
    with sandbox.CaseDir() as d:
        if case["mode"] == "aes-blob":
            _aes_blob(case, R, d)
        elif case["mode"] == "cipher":
            _cipher(case, R, d)
        elif case["mode"] == "bad-decrypt":
            _bad_decrypt(case, R, d)
        else:
            _bad_stored(case, R, d)
