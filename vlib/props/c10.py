"""C10 — a sensitive-value mask hides every sensitive value at every depth of the tree."""
import base64
import os

from hypothesis import strategies as st

from .. import aesref, ops, refmodel, sandbox, specs, trees, worlds
from . import c02, c03

ID = "C10"
LEVEL = "exploration"
DESIGN_REF = "DESIGN.md §4 C10"
RULE = (
    "Metamorphic testing. A case = (schema spec in which about half of the fields of every kind are marked "
    "sensitive - at the root, in nested sub-configurations, config types and in the item schemas of lists of "
    "configurations; populated values; a mask: None, '', one character (incl. characters that occur in values), "
    "2-5 characters; output: tree or document in one of the 5 formats; virtual output on/off). The model computes "
    "the EXPECTED tree from (spec, values, mask): at a sensitive position null for an empty value, mask * "
    "len(str(value)) for a one-character mask and the mask verbatim otherwise; at every other position exactly "
    "what to_tree() without a mask renders (secrets that are not marked sensitive are compared after decrypting "
    "with the reference cipher because AES output is randomised). Oracle: to_tree(sensitive_mask=m) equals the "
    "expected tree; the independently decoded dumps(fmt, sensitive_mask=m) equals it too; with mask None the "
    "output equals the plain rendering, and that plain rendering equals the rendering of a TWIN configuration built "
    "from the same schema with no field marked sensitive and filled the same way ('without a mask nothing is "
    "altered': the marks have no effect on unmasked output; digests are compared by shape, secrets by plaintext); "
    "additionally no distinctive sensitive string value occurs in the masked document bytes. Non-trivial = a "
    "non-empty sensitive value below the root (nested / config type / list item), or an unmasked rendering in "
    "which some sensitive field holds a falsy value that is not None ('', 0, False, [])."
)
ASSUMPTIONS = [
    "the 'value's length' of a non-string sensitive value is len(str(value)), the generalisation documented by to_tree",
    "item fields of typed scalar lists/dicts are not 'fields of a configuration'; only schema fields carry the flag",
]
REQUIRED = ["sensitive:virtual", "mask:none", "mask:empty", "mask:one-char", "mask:multi", "out:tree", "out:document", "sensitive:nested", "sensitive:list-item",
            "sensitive:configtype", "sensitive:empty-value", "sensitive:list-of-configs", "sensitive:set-after-declaration", "sensitive-value-embedded-in-plain-field", "no-mask:unmarked-twin", "no-mask:falsy-sensitive-value"]
LEVEL_TEXT = (
    "Generated schemas/values/masks with a model-computed expected tree compared structurally with the masked "
    "rendering (tree and decoded document); kills mutants whose recursion drops the mask, repeats a multi-character "
    "mask, masks empty values or alters non-sensitive fields."
)
LEVEL_NOTE = "Trusted: CPython, Hypothesis, independent document decoders, vlib/aesref.py."
TECHNIQUE = "metamorphic property testing (Hypothesis): masked rendering vs model-computed expected tree"


def selftest():
    aesref.selftest()
    refmodel.selftest()


def budget(tier):
    if tier == "quick":
        return {"cases": 400, "shards": 3}
    return {"cases": 3000, "shards": 16}


def _mark(node, flags, counter):
    kids = []
    for c in node["children"]:
        if c["kind"] in ("schema", "configtype", "schemalist"):
            c = _mark(c, flags, counter)
            if c["kind"] == "schemalist":  # the list field itself may be marked sensitive, too
                f = flags[counter[0] % len(flags)]
                counter[0] += 1
                if f is not None and counter[0] % 2 == 0:
                    c = dict(c, sensitive=f)
        elif c["kind"] != "method":  # virtual fields can be marked sensitive, too
            f = flags[counter[0] % len(flags)]
            counter[0] += 1
            if f is not None:
                # every other mark is made (or cleared) through the field's public attribute after the declaration
                c = dict(c, sensitive=f, sensitive_late=counter[0] % 2 == 1 and c["kind"] != "virtual")
        kids.append(c)
    return dict(node, children=kids)


def strategy(tier):
    def hist(spec):
        leaves = ops.spec_leaves(spec)
        populate = st.fixed_dictionaries({".".join(p): c02.candidates(nd) for p, nd in leaves}) if leaves else st.just({})
        mask = st.one_of(st.none(), st.just(""), st.sampled_from(["*", "x", "a", "0", " ", "é", "="]), st.sampled_from(["***", "<hidden>", "xx", "NULL", "a b"]),
                         st.text(min_size=1, max_size=5))
        return st.fixed_dictionaries({"spec": st.just(spec), "populate": populate, "mask": mask, "fmt": st.sampled_from(trees.FORMATS + ("tree", "tree")),
                                      "virtual": st.booleans(), "skip": st.lists(st.integers(0, 40), max_size=3)})
    flags = st.lists(st.sampled_from([True, True, False, None]), min_size=5, max_size=12)
    # every schema also carries C02's fixed extras: a list of configurations and a config type with secret / bytes /
    # digest fields and with keys that are names of Config methods
    return st.tuples(worlds.schema_spec(tier).map(c02._augment), flags).map(lambda t: _mark(t[0], t[1], [0])).flatmap(hist)


def _is_sensitive(node):
    if node.get("sensitive") is not None:
        return bool(node["sensitive"])
    return node["kind"] == "secure"


def _first_diff(a, b, keybytes, path="$"):
    """Where two renderings differ under _same (for messages)."""
    if isinstance(a, dict) and isinstance(b, dict) and not (set(a) == set(b) == {"method", "ciphertext"}):
        if set(a) != set(b):
            return "%s: keys %r vs %r" % (path, sorted(map(str, a)), sorted(map(str, b)))
        for k in a:
            if not _same(a[k], b[k], keybytes, True):
                return _first_diff(a[k], b[k], keybytes, "%s.%s" % (path, k))
    if isinstance(a, list) and isinstance(b, list) and len(a) == len(b):
        for i, (x, y) in enumerate(zip(a, b)):
            if not _same(x, y, keybytes, True):
                return _first_diff(x, y, keybytes, "%s[%d]" % (path, i))
    return "%s: %r vs %r" % (path, a, b)


def _unmarked(node):
    kids = []
    for c in node["children"]:
        if c["kind"] in ("schema", "configtype", "schemalist"):
            c = _unmarked(c)
        if c["kind"] != "method":
            c = dict(c, sensitive=False, sensitive_late=False)
        kids.append(c)
    return dict(node, children=kids)


def _any_falsy_sensitive(world, cfg, node=None):
    cc = world.cc
    node = node or world.spec
    for child in node["children"]:
        kind = child["kind"]
        if kind in ("virtual", "method"):
            continue
        v = cfg[child["key"]]
        if kind in ("schema", "configtype") and isinstance(v, cc.Config):
            if _any_falsy_sensitive(world, v, child):
                return True
        elif kind == "schemalist" and v and not _is_sensitive(child):
            if any(_any_falsy_sensitive(world, item, child) for item in v):
                return True
        elif _is_sensitive(child) and v is not None and not v:
            return True
    return False


def _masked(value, mask):
    if not value:
        return None
    if len(mask) == 1:
        return mask * len(str(value))
    return mask


def _same(a, b, keybytes, twin=False):
    """Equality of two renderings; encrypted secrets are compared by their plaintext. ``twin``: the renderings come from
    two separately built configurations, whose digests of one plaintext carry a salt of their own each."""
    if twin and type(a).__name__ == "DigestValue" and type(b).__name__ == "DigestValue":
        return len(a.salt) == len(b.salt) and len(a.digest) == len(b.digest)  # (a virtual field echoing a sibling's digest)
    if isinstance(a, dict) and isinstance(b, dict):
        if twin and set(a) == set(b) and {"salt", "digest"} <= set(a):
            return True
        if set(a) == set(b) == {"method", "ciphertext"} and keybytes:
            try:
                return c03._ref_decrypt(keybytes, a) == c03._ref_decrypt(keybytes, b)
            except Exception:
                return False
        return set(a) == set(b) and all(_same(a[k], b[k], keybytes, twin) for k in a)
    if isinstance(a, list) and isinstance(b, list):
        return len(a) == len(b) and all(_same(x, y, keybytes, twin) for x, y in zip(a, b))
    return trees.tree_eq(a, b)


def _expect(world, cfg, plain, mask, R, node=None, where="root"):
    """Expected masked tree, built from the spec, the held values and the unmasked rendering ``plain``."""
    cc = world.cc
    node = node or world.spec
    out = dict(plain)
    for child in node["children"]:
        key, kind = child["key"], child["kind"]
        if key not in plain:
            continue
        if kind == "method":
            continue
        value = cfg[key]  # item access: a key may be the name of a Config method
        if kind == "virtual":
            if _is_sensitive(child) and mask is not None:
                out[key] = _masked(value, mask)
                R.label("sensitive:virtual")
            continue
        if kind in ("schema", "configtype"):
            if isinstance(value, cc.Config) and isinstance(plain[key], dict):
                out[key] = _expect(world, value, plain[key], mask, R, child, "configtype" if kind == "configtype" or where == "configtype" else "nested")
            continue
        if kind == "schemalist":
            if value and isinstance(plain[key], list) and not (_is_sensitive(child) and mask is not None):
                out[key] = [_expect(world, item, pt, mask, R, child, "list-item") if isinstance(pt, dict) else pt for item, pt in zip(value, plain[key])]
                continue
        if _is_sensitive(child) and mask is not None:
            out[key] = _masked(value, mask)
            if child.get("sensitive_late"):
                R.label("sensitive:set-after-declaration")
            if value and kind == "schemalist":
                R.label("sensitive:list-of-configs")
            if value:
                R.label("sensitive:" + where)
                if where != "root":
                    R.nontrivial = True
            else:
                R.label("sensitive:empty-value")
    return out


def _sensitive_strings(world, cfg, node=None):
    cc = world.cc
    node = node or world.spec
    for child in node["children"]:
        kind = child["kind"]
        if kind in ("virtual", "method"):
            continue
        v = cfg[child["key"]]
        if kind in ("schema", "configtype") and isinstance(v, cc.Config):
            yield from _sensitive_strings(world, v, child)
        elif kind == "schemalist" and v:
            for item in v:
                yield from _sensitive_strings(world, item, child)
        elif _is_sensitive(child) and isinstance(v, str) and len(v) >= 8:
            yield v


def exhaustive(tier):
    """Configurations held in lists that do not declare them: an untyped list, a list of AnyField items (root / nested),
    with sensitive fields of their own, per mask and output form."""
    for holder in ("untyped-list", "any-item-list"):
        for place in ("root", "nested"):
            for mask in (None, "", "*", "xx"):
                for fmt in ("tree",) + tuple(trees.FORMATS):
                    yield {"mode": "loose-list", "holder": holder, "place": place, "mask": mask, "fmt": fmt}


def _loose_list_case(case, R):
    cc = sandbox._state["cc"]
    mask, fmt = case["mask"], case["fmt"]
    R.label("loose-list", "loose-list:" + case["holder"])
    R.nontrivial = mask is not None
    item = cc.Schema()
    item.name = cc.StringField()
    item.token = cc.StringField(sensitive=True)
    item.pin = cc.IntField(sensitive=True)
    item.inner.key = cc.StringField(sensitive=True)
    item.inner.note = cc.StringField()
    schema = cc.Schema()
    make = (lambda: cc.ListField()) if case["holder"] == "untyped-list" else (lambda: cc.ListField(cc.AnyField()))
    if case["place"] == "root":
        schema.held = make()
        owner = lambda cfg: cfg
        wrap = lambda t: t
    else:
        schema.a.b.held = make()
        owner = lambda cfg: cfg.a.b
        wrap = lambda t: {"a": {"b": t}}
    schema.plain = cc.StringField(default="p")

    def mk(n):
        it = item()
        it.name, it.token, it.pin = "n%d" % n, "token-%d-secret" % n, 1234 + n
        it.inner.key, it.inner.note = "inner-key-%d" % n, "note"
        return it

    def shown(v):
        if mask is None:
            return v
        return mask * len(str(v)) if len(mask) == 1 else mask
    with sandbox.CaseDir() as d:
        cfg = schema(key_filename=os.path.join(d, "key"))
        owner(cfg).held = [mk(1), mk(2)]
        want = dict(wrap({"held": [{"name": "n%d" % n, "token": shown("token-%d-secret" % n), "pin": shown(1234 + n), "inner": {"key": shown("inner-key-%d" % n), "note": "note"}} for n in (1, 2)]}), plain="p")
        try:
            if fmt == "tree":
                got = cfg.to_tree(sensitive_mask=mask)
            else:
                got = c03._decode(cc, fmt, cfg.dumps(fmt, sensitive_mask=mask))
        except Exception as exc:
            R.label("loose-list:not-renderable")  # (whether such a list can be written in this format at all is C02's business)
            return
        R.check(trees.tree_eq(got, want), "masked" if mask is not None else "no-mask-no-change", "loose-list:%s" % case["holder"],
                lambda: "configurations held in an %s (%s), mask %r, %s output: %s" % (case["holder"], case["place"], mask, fmt, trees.tree_diff(want, got)))


def run_case(case, R):
    if case.get("mode") == "loose-list":
        return _loose_list_case(case, R)
    cc = sandbox._state["cc"]
    spec = case["spec"]
    mask = case["mask"]
    R.label("mask:" + ("none" if mask is None else "empty" if mask == "" else "one-char" if len(mask) == 1 else "multi"))
    with sandbox.CaseDir() as d:
        keyfile = os.path.join(d, "key")

        def build(spec):
            world = worlds.World(cc, spec)
            cfg = world.schema(key_filename=keyfile)
            leaves = ops.spec_leaves(spec)
            skip = {i % max(len(leaves), 1) for i in case["skip"]}
            for i, (path, nd) in enumerate(leaves):
                if i in skip:
                    continue
                for raw in case["populate"].get(".".join(path), []):
                    value = c02.realize_candidate(nd, raw, world.ctx)
                    if c02._emptied(nd, value, raw, case["populate"].get(".".join(path), [])):
                        continue
                    try:
                        ops.set_via(cfg, path, value, "setattr")
                        break
                    except Exception:
                        continue
            # a non-sensitive text field may well CONTAIN the sensitive value of a sibling (a DSN, a note): it is rendered as it is
            try:
                if isinstance(cfg.zzct.token, str) and cfg.zzct.token:
                    cfg.zzct["full_path"] = "dsn://user:%s@host/db" % cfg.zzct.token
                    R.label("sensitive-value-embedded-in-plain-field")
                for item in cfg.zzitems or []:
                    if isinstance(item.secret, str) and item.secret:
                        item.label = item.secret
            except Exception:
                pass
            c02._sanitize(world, cfg)
            return world, cfg
        world, cfg = build(spec)
        # virtual fields echo sibling values (bytes, digests, typed proxies): not plain data, so virtual output is only
        # exercised for tree output, never for documents
        virtual = case["virtual"] and case["fmt"] == "tree"
        try:
            plain = cfg.to_tree(virtual=virtual)
        except Exception:
            return  # not renderable at all (C02/C19 territory)
        try:
            with open(keyfile, "rb") as fp:
                keybytes = fp.read()
        except OSError:
            keybytes = None
        expected = _expect(world, cfg, plain, mask, R)
        if mask is None:
            # "without a mask nothing is altered": the same schema with NO field marked sensitive, filled the same way,
            # renders the same tree (the marks have no effect on output that was not asked to be masked)
            try:
                _, twin = build(_unmarked(spec))
                unmarked = twin.to_tree(virtual=virtual)
            except Exception:
                unmarked = None
            if unmarked is not None:
                R.label("no-mask:unmarked-twin")
                if _any_falsy_sensitive(world, cfg):
                    R.label("no-mask:falsy-sensitive-value")
                    R.nontrivial = True
                R.check(_same(plain, unmarked, keybytes, True), "no-mask-no-change", "unmarked-twin",
                        lambda: "without a mask, the tree differs from that of the same schema without sensitive marks: %s" % _first_diff(unmarked, plain, keybytes))

        fmt = case["fmt"]
        if fmt == "tree" or not ops.is_plain(expected, fmt):
            R.label("out:tree")
            try:
                got = cfg.to_tree(virtual=virtual, sensitive_mask=mask)
            except Exception as exc:
                R.fail("raises", "to_tree", "to_tree(sensitive_mask=%r) raised %r" % (mask, exc))
                return
            R.check(_same(got, expected, keybytes), "masked" if mask is not None else "no-mask-no-change", "tree",
                    lambda: "mask %r: %s" % (mask, trees.tree_diff(expected, got)))
            return
        R.label("out:document", "fmt:" + fmt)
        try:
            doc = cfg.dumps(fmt, virtual=virtual, sensitive_mask=mask)
        except Exception as exc:
            R.fail("raises", "dumps:" + fmt, "dumps(%s, sensitive_mask=%r) raised %r" % (fmt, mask, exc))
            return
        try:
            got = c03._decode(cc, fmt, doc)
        except Exception as exc:
            R.fail("document", "decode:" + fmt, "decoding the masked document failed: %r" % (exc,))
            return
        R.check(_same(got, expected, keybytes), "masked" if mask is not None else "no-mask-no-change", "document",
                lambda: "mask %r, %s: %s" % (mask, fmt, trees.tree_diff(expected, got)))
        if mask is not None:
            for s in _sensitive_strings(world, cfg):
                if s in mask or (len(mask) == 1 and set(s) == {mask}):
                    continue
                if fmt in ("json", "yaml", "xml", "pickle", "bson") and s.encode() in doc:
                    # a non-sensitive field may legitimately hold the same text
                    if not _occurs(plain, expected, s):
                        R.fail("leak", fmt, "sensitive value %r occurs in the masked %s document" % (s, fmt))


def _occurs(plain, expected, s):
    """Does the expected (masked) tree itself contain s, i.e. through a non-sensitive field?"""
    if any(s in x for x in c03._strings(expected)):
        return True
    # ... or as the document's spelling of a non-string scalar (a float inf is written "Infinity" / ".inf", True "true", ...)
    def scalars(t):
        if isinstance(t, dict):
            for k, v in t.items():
                yield from scalars(k)
                yield from scalars(v)
        elif isinstance(t, (list, tuple)):
            for v in t:
                yield from scalars(v)
        elif not isinstance(t, str):
            yield t
    for v in scalars(expected):
        spellings = {str(v), repr(v), str(v).lower()}
        if isinstance(v, float):
            spellings |= {"Infinity", "-Infinity", "NaN", ".inf", "-.inf", ".nan", "inf", "nan"} if v != v or v in (float("inf"), float("-inf")) else {"%r" % v, "%g" % v}
        if any(s in sp for sp in spellings):
            return True
    return False
