"""C13 — configurations of one schema share no state and never alter the schema."""
import json
import os
import re

from hypothesis import strategies as st

from .. import ops, refmodel, sandbox, specs, worlds
from .c06 import _mask

ID = "C13"
LEVEL = "exploration"
DESIGN_REF = "DESIGN.md §4 C13"
RULE = (
    "Stateful testing with two instances. A case = (schema spec with typed and untyped list/dict fields carrying "
    "constant or callable mutable defaults, nested schemas, config types, dynamic parts, and an item schema / "
    "config type reused by two lists; a history of all C01 operations on configuration A - including in-place "
    "mutation of A's default containers, of untyped list/dict values and dynamic field additions; and when the "
    "observer B is built: before the history, in the middle or afterwards). Oracle after EVERY op: the deep "
    "snapshot of every already-built observer is unchanged; an observer built later equals the snapshot of a "
    "configuration built before any op (random challenge salts masked); at the end the schema snapshot - field "
    "table incl. config types and list item schemas, vars() of every field deep-frozen, every declared default "
    "evaluated, get_all_fields - is unchanged, and fields added dynamically to A are absent from B and from the "
    "schema. Non-trivial = A mutated a container in place (or added a dynamic field) while B holds the same field."
)
ASSUMPTIONS = [
    "out of domain as the statement's quantifier says 'mutable defaults on typed fields': a mutable constant "
    "default on an AnyField (the caller's object is handed out like a mutable default argument) and mutable items "
    "nested inside an untyped container default (only the container is copied) are not mutated by the harness",
]
REQUIRED = ["same-document", "equal-twins:take-over+edit", "filled-from-tree", "include-load", "serialize", "cross-assign+edit", "cross-assign+edit:list", "cross-assign+edit:dict", "observer:before", "observer:middle", "observer:after", "inplace:typed", "inplace:untyped", "shared-item-type", "dynamic-add"]
LEVEL_TEXT = (
    "Generated schemas and histories on one instance with an untouched observer instance and a frozen schema "
    "snapshot as oracle; kills mutants that stop copying default containers, register dynamic fields on the "
    "schema or cache sub-configurations."
)
LEVEL_NOTE = "Trusted: CPython, Hypothesis, snapshot functions (public read API + vars() of fields)."
TECHNIQUE = "stateful property testing with an observer instance (Hypothesis histories, isolation invariant each step)"


def selftest():
    refmodel.selftest()


def budget(tier):
    if tier == "quick":
        return {"cases": 400, "shards": 3}
    return {"cases": 3000, "shards": 16}


def _share_items(spec):
    """Reuse the item schema of the first list of schemas for a second list."""
    for c in spec["children"]:
        if c["kind"] == "schemalist":
            keys = {x["key"] for x in spec["children"]}
            new_key = next(k for k in worlds.KEY_POOL if k not in keys)
            clone = dict(c, key=new_key, shared_from=c["key"])
            return dict(spec, children=spec["children"] + [clone])
    return spec


def _mutable_defaults(node, modes):
    """Give every list/dict leaf that has no default a constant or callable mutable default."""
    kids = []
    for i, c in enumerate(node["children"]):
        if c["kind"] in ("schema", "configtype", "schemalist"):
            c = _mutable_defaults(c, modes)
        elif c["kind"] in ("list", "dict") and (c.get("default") or {}).get("mode", "none") == "none" and not c.get("validator"):
            typed = c.get("item") or c.get("keyf") or c.get("valuef")
            if c["kind"] == "list":
                value = [] if (typed or c.get("req")) else [1, "a"]
            else:
                value = {} if (typed or c.get("req")) else {"k": 1}
            if not (c.get("req") and not value):
                c = dict(c, default={"mode": modes[i % len(modes)], "value": value})
        kids.append(c)
    return dict(node, children=kids)


def strategy(tier):
    n = 20 if tier == "quick" else 60

    def hist(spec):
        spec = _mutable_defaults(_share_items(spec), ["const", "const", "callable"])
        # include fields without a start directory, at the root and in the first nested schema
        inc = {"kind": "include", "key": "zzinc", "req": False, "validator": None, "opts": {"startdir": None}, "default": {"mode": "none"}}
        kids, done = [], False
        for c in spec["children"]:
            if not done and c["kind"] == "schema" and "zzinc" not in {x["key"] for x in c["children"]}:
                c = dict(c, children=list(c["children"]) + [inc])
                done = True
            kids.append(c)
        spec = dict(spec, children=[c for c in kids if c["key"] != "zzinc"] + [inc])
        leaves = ops.spec_leaves(spec)
        untyped = [i for i, (p, nd) in enumerate(leaves) if (nd["kind"] == "list" and not nd.get("item")) or (nd["kind"] == "dict" and not (nd.get("keyf") or nd.get("valuef")))]
        extra = []
        if untyped:
            extra.append(st.fixed_dictionaries({"op": st.just("raw_inplace"), "leaf": st.sampled_from(untyped), "v": st.one_of(st.integers(0, 9), st.text(max_size=3)),
                                                "what": st.sampled_from(["add", "add", "clear", "replace"])}))
        # only typed scalar-item containers: the library wraps those into its own object; handing one and the same
        # caller-owned object (untyped list, configuration item) to two configurations is caller-made aliasing
        extra.append(st.fixed_dictionaries({"op": st.just("serialize"), "how": st.sampled_from(["to_tree", "to_tree-virtual", "dumps-json", "dumps-pickle", "asdict", "stub"])}))
        # A loads a document that names an existing include file by its absolute path
        extra.append(st.fixed_dictionaries({"op": st.just("include_load"), "fmt": st.sampled_from(["json", "yaml", "xml"]), "which": st.integers(0, 1)}))
        containers = [i for i, (p, nd) in enumerate(leaves) if (nd["kind"] == "list" and nd.get("item") and nd["item"]["kind"] != "any")
                      or (nd["kind"] == "dict" and (nd.get("keyf") or nd.get("valuef")))]  # (a list of AnyField items is stored as the caller's own list)
        if containers:
            extra.append(st.fixed_dictionaries({"op": st.just("cross_assign"), "leaf": st.sampled_from(containers)}))
        typed = [(p, nd) for p, nd in leaves if (nd["kind"] == "list" and nd.get("item")) or (nd["kind"] == "dict" and (nd.get("keyf") or nd.get("valuef")))]
        bfill = st.fixed_dictionaries({".".join(p): st.lists(ops.value_for(nd), min_size=3, max_size=3) for p, nd in typed}) if typed else st.just({})
        base = ops.single_op(spec)
        return st.fixed_dictionaries({"spec": st.just(spec), "bfill": bfill, "observer": st.sampled_from(["before", "middle", "after"]),
                                      "ops": st.lists(ops.weighted((3, base), (1, st.one_of(*extra))) if extra else base, min_size=2, max_size=n)})
    # lists and dicts are what can be shared by accident: over-weight them
    return worlds.schema_spec(tier).flatmap(hist)


# -- schema snapshot --------------------------------------------------------------------------------------


def _freeze_attr(v, cc, seen):
    if isinstance(v, (str, int, float, bool, bytes, type(None))):
        return repr(v)
    if isinstance(v, re.Pattern):
        return ("re", v.pattern)
    if isinstance(v, (list, tuple)):
        return (type(v).__name__, [_freeze_attr(x, cc, seen) for x in v])
    if isinstance(v, dict):
        return ("dict", [(_freeze_attr(k, cc, seen), _freeze_attr(x, cc, seen)) for k, x in v.items()])
    if isinstance(v, cc.core.BaseField):
        return _freeze_field(v, cc, seen)
    if isinstance(v, type):
        if issubclass(v, cc.ConfigType):
            return ("configtype", v.__name__, _freeze_field(v.__schema__, cc, seen), v.__key_filename__)
        return ("type", v.__name__)
    if type(v).__name__ == "DigestValue":
        return ("digest", v.salt, v.digest)
    return ("obj", type(v).__name__, id(v))


def _freeze_field(field, cc, seen):
    if id(field) in seen:
        return ("ref", id(field))
    seen.add(id(field))
    out = {"type": type(field).__name__}
    for name, val in sorted(vars(field).items()):
        if name == "_schema":
            out[name] = id(val) if val is not None else None
            continue
        if name == "_fields":
            out[name] = [(k, _freeze_field(f, cc, seen)) for k, f in val.items()]
            continue
        if name == "_default" and callable(val):
            out[name] = ("callable", _freeze_attr(val(), cc, seen))
            continue
        out[name] = _freeze_attr(val, cc, seen)
    return out


def schema_snapshot(cc, schema):
    snap = {"tree": _freeze_field(schema, cc, set())}
    snap["all_fields"] = [(p, id(s), id(f)) for p, s, f in cc.get_all_fields(schema)]
    return snap


def _raw_inplace(cfg, leaves, op):
    path, node = leaves[op["leaf"] % len(leaves)]
    val = worlds.get_path(cfg, path)
    if val is None:
        try:
            ops.set_via(cfg, path, [op["v"]] if node["kind"] == "list" else {"seed": op["v"]}, "setattr")
        except Exception:  # e.g. a custom validator rejects it: nothing to mutate then
            return False
        val = worlds.get_path(cfg, path)
    what = op["what"]
    if isinstance(val, tuple):
        return False
    if isinstance(val, list):
        if what == "add":
            val.append(op["v"])
        elif what == "clear":
            val.clear()
        else:
            val[:] = [op["v"]]
    elif isinstance(val, dict):
        if what == "add":
            val["k%s" % op["v"]] = op["v"]
        elif what == "clear":
            val.clear()
        else:
            val.clear()
            val["only"] = op["v"]
    else:
        return False
    return True


def _fill_observer(world, b, case):
    """The observer's typed containers get values of their own (so that sharing with A would be visible)."""
    from . import c02
    for p, nd in ops.spec_leaves(world.spec):
        for raw in case.get("bfill", {}).get(".".join(p), []):
            value = c02._filter_valid(nd, specs.realize(raw), world.ctx)
            if not value:
                continue
            try:
                ops.set_via(b, p, value, "setattr")
                break
            except Exception:
                continue


def exhaustive(tier):
    """Two configurations of one schema load the SAME document (byte for byte), in every format and through every load
    route, in each order relative to in-place edits of what the first one holds."""
    for fmt in ("json", "yaml", "xml", "bson", "pickle"):
        for route in ("loads", "load-file", "load_tree-of-decoded"):
            for order in ("A-B-edit", "A-edit-B", "A-edit-A2"):
                for repeat in (1, 3):
                    yield {"mode": "same-document", "fmt": fmt, "route": route, "order": order, "repeat": repeat}
    for kind in ("schema", "configtype"):
        for place in ("root", "nested"):
            for route in ("setattr", "setitem", "load_tree", "ctor", "loads-json"):
                yield {"mode": "rejected-sub-assign", "kind": kind, "place": place, "route": route}
    for kind in ("list", "typed-list", "any-list", "dict", "typed-dict", "any-dict"):
        for size in (0, 2):
            for place in ("root", "nested", "configtype", "list-item"):
                yield {"mode": "shared-default", "kind": kind, "size": size, "place": place}


def _shared_default_case(case, R):
    """A constant mutable default on every container field kind: in-place edits through one configuration are seen neither
    through another configuration (built before or after) nor in the schema's declared default."""
    import copy
    cc = sandbox._state["cc"]
    kind, size, place = case["kind"], case["size"], case["place"]
    is_list = kind.endswith("list")
    declared = [10, 20, 30][:size] if is_list else dict([("a", 1), ("b", 2), ("c", 3)][:size])
    literal = copy.deepcopy(declared)
    field = {"list": lambda: cc.ListField(default=literal), "typed-list": lambda: cc.ListField(cc.IntField(), default=literal),
             "any-list": lambda: cc.ListField(cc.AnyField(), default=literal), "dict": lambda: cc.DictField(default=literal),
             "typed-dict": lambda: cc.DictField(cc.StringField(), cc.IntField(), default=literal), "any-dict": lambda: cc.DictField(cc.AnyField(), cc.AnyField(), default=literal)}[kind]()
    R.label("shared-default", "shared-default:" + kind)
    R.nontrivial = True
    schema = cc.Schema()
    if place == "root":
        schema.f = field
        owner = lambda cfg: cfg
    elif place == "nested":
        schema.a.b.f = field
        owner = lambda cfg: cfg.a.b
    elif place == "configtype":
        sub = cc.Schema()
        sub.f = field
        schema.t = cc.make_type(sub, "SharedDefaultT", module=__name__)
        owner = lambda cfg: cfg.t
    else:
        item = cc.Schema()
        item.f = field
        schema.rows = cc.ListField(item)
        owner = lambda cfg: cfg.rows[0]

    def build():
        cfg = schema()
        if place == "list-item":
            cfg.rows = [{}]
        return cfg

    def view(cfg):
        v = owner(cfg).f
        return None if v is None else (list(v) if is_list else dict(v))
    b = build()
    a = build()
    for step in ("fresh", "after-reset"):
        if step == "after-reset":
            cc.reset_value(owner(a), "f")
        v = owner(a).f
        try:
            if is_list:
                v.append(99)
                v += [98]
            else:
                v["zz"] = 99
                v.update(yy=98) if kind != "typed-dict" else v.update({"yy": 98})
        except Exception:
            return
        c = build()
        for who, cfg in (("built earlier", b), ("built later", c)):
            got = view(cfg)
            R.check(got == declared, "isolated", "shared-default:%s:%s" % (kind, step),
                    lambda: "%s default %r (%s, %s): A's value was edited in place; a configuration %s shows %r" % (kind, declared, place, step, who, got))
        dflt = field.default
        R.check(dflt is None or (list(dflt) if is_list else dict(dflt)) == declared, "schema-const", "shared-default:" + kind,
                lambda: "the field's declared default became %r (declared %r)" % (dflt, declared))


def _rejected_sub_assign_case(case, R):
    """Something that is neither a map nor a configuration is offered where a sub-configuration is declared (schema / config
    type; root / nested; every route): the schema and the other configurations of it stay as they were."""
    cc = sandbox._state["cc"]
    kind, place, route = case["kind"], case["place"], case["route"]
    sub = cc.Schema()
    sub.host = cc.StringField(default="h")
    sub.port = cc.IntField(default=1)
    schema = cc.Schema()
    schema.label = cc.StringField(default="l")
    holder = schema if place == "root" else schema.outer
    holder.part = sub if kind == "schema" else cc.make_type(sub, "RejectedPart", module=__name__)
    R.label("rejected-sub-assign", "rejected-sub-assign:" + kind)
    R.nontrivial = True
    b = schema()
    before_b = worlds.snapshot(b, cc)
    before_schema = schema_snapshot(cc, schema)
    for bad in (5, "text", [1, 2], 1.5, True, b"x", ("a", 1), object()):
        a = schema()
        tree = {"part": bad} if place == "root" else {"outer": {"part": bad}}
        try:
            if route == "setattr":
                setattr(a if place == "root" else a.outer, "part", bad)
            elif route == "setitem":
                a["part" if place == "root" else "outer.part"] = bad
            elif route == "load_tree":
                a.load_tree(tree)
            elif route == "ctor":
                if place != "root":
                    return
                schema(part=bad)
            else:
                if isinstance(bad, (bytes, tuple)) or type(bad) is object:
                    continue
                a.loads(json.dumps(tree).encode(), "json")
        except Exception:
            pass
        now = schema_snapshot(cc, schema)
        if not R.check(now == before_schema, "schema-const", "rejected-sub-assign:" + route,
                       lambda: "offering %r for the sub-configuration via %s changed the schema: %s" % (bad, route, worlds.diff(before_schema, now))):
            before_schema = now
        R.check(worlds.snapshot(b, cc) == before_b, "isolated", "rejected-sub-assign:" + route, lambda: "offering %r via %s changed another configuration" % (bad, route))


def _same_document_case(case, R):
    import copy
    cc = sandbox._state["cc"]
    fmt, route, order = case["fmt"], case["route"], case["order"]
    R.label("same-document", "same-document:" + fmt)
    R.nontrivial = True
    content = {"plain": [1, "a", [2, 3], {"k": [4]}], "table": {"x": 1, "inner": {"y": [5]}, "seq": [6]}, "free": {"deep": [7, {"z": 8}]},
               "typed": [1, 2], "sub": {"items": ["p"], "opts": {"o": 1}, "extra": [9, [10]]}, "extra_root": {"dyn": [11]}}
    schema = cc.Schema(dynamic=True)
    schema.plain = cc.ListField()
    schema.table = cc.DictField()
    schema.free = cc.AnyField()
    schema.typed = cc.ListField(cc.IntField())
    schema.sub = cc.Schema(dynamic=True)
    schema.sub.items = cc.ListField()
    schema.sub.opts = cc.DictField()
    fmtr = cc.ConfigFormat.get(fmt)
    with sandbox.CaseDir() as d:
        doc = fmtr.dumps(schema(), copy.deepcopy(content))
        target = os.path.join(d, "same." + fmt)
        with open(target, "wb") as fp:
            fp.write(doc)

        def load():
            cfg = schema()
            for _ in range(case["repeat"]):
                if route == "loads":
                    cfg.loads(bytes(doc), fmt)
                elif route == "load-file":
                    cfg.load(target, fmt)
                else:
                    cfg.load_tree(cc.ConfigFormat.get(fmt).loads(cfg, bytes(doc)))
            return cfg

        def view(cfg):
            return copy.deepcopy({"plain": list(cfg.plain), "table": dict(cfg.table), "free": cfg.free, "typed": list(cfg.typed),
                                  "sub": {"items": list(cfg.sub.items), "opts": dict(cfg.sub.opts), "extra": cfg.sub["extra"]}, "extra_root": cfg["extra_root"]})

        def edit(cfg):
            cfg.plain.append("edited")
            cfg.plain[2].append("edited")
            cfg.plain[3]["k"].append("edited")
            cfg.table["edited"] = 1
            cfg.table["inner"]["y"].append("edited")
            cfg.table["seq"].append("edited")
            cfg.free["deep"].append("edited")
            cfg.free["deep"][1]["z"] = "edited"
            cfg.typed.append(99)
            cfg.sub.items.append("edited")
            cfg.sub.opts["edited"] = 1
            cfg.sub["extra"].append("edited")
            cfg.sub["extra"][1].append("edited")
            cfg["extra_root"]["dyn"].append("edited")
        try:
            a = load()
            want = view(a)
        except Exception as exc:
            R.fail("crash", "same-document:" + fmt, "loading the document raised %r" % (exc,))
            return
        if want != content:
            R.label("same-document:format-changes-content")  # (what a format does to the tree is C04's business)
        if order == "A-B-edit":
            b = load()
            edit(a)
            got = view(b)
            R.check(got == want, "isolated", "same-document:%s:%s" % (fmt, order),
                    lambda: "A and B loaded the same %s document (%s); in-place edits of A's values changed B: %r" % (fmt, route, worlds.diff(want, got) if hasattr(worlds, "diff") else got))
        else:
            edit(a)
            b = load()
            got = view(b)
            R.check(got == want, "isolated", "same-document:%s:%s" % (fmt, order),
                    lambda: "A loaded a %s document (%s) and edited its values in place; B then loaded the same document and sees the edits: %r" % (fmt, route, got))
            if order == "A-edit-A2":
                edit(b)
                c = load()
                got = view(c)
                R.check(got == want, "isolated", "same-document:%s:%s:third" % (fmt, order), lambda: "a third load of the same document shows %r" % (got,))


def run_case(case, R):
    if case.get("mode") == "same-document":
        return _same_document_case(case, R)
    if case.get("mode") == "rejected-sub-assign":
        return _rejected_sub_assign_case(case, R)
    if case.get("mode") == "shared-default":
        return _shared_default_case(case, R)
    cc = sandbox._state["cc"]
    spec = case["spec"]
    with sandbox.CaseDir() as d:
        world = worlds.World(cc, spec)
        keyfile = os.path.join(d, "key")
        if any(c.get("shared_from") for c in spec["children"]):
            R.label("shared-item-type")
        schema_before = schema_snapshot(cc, world.schema)
        pristine = _mask(worlds.snapshot(world.schema(key_filename=keyfile), cc))
        state = {"cfg": world.schema(key_filename=keyfile), "keyfile": keyfile}
        observers = []
        when = case["observer"]
        R.label("observer:" + when)
        if when == "before":
            b = world.schema(key_filename=keyfile)
            _fill_observer(world, b, case)
            observers.append((b, worlds.snapshot(b, cc)))
        leaves = ops.spec_leaves(spec)
        nops = len(case["ops"])
        inplace = dyn = False
        dyn_keys = []

        for i, op in enumerate(case["ops"]):
            if when == "middle" and i == nops // 2:
                b = world.schema(key_filename=keyfile)
                R.check(_mask(worlds.snapshot(b, cc)) == pristine, "isolated", "built-later",
                        lambda: "a configuration built after A's mutations differs from a pristine one: %s" % worlds.diff(pristine, _mask(worlds.snapshot(b, cc))))
                _fill_observer(world, b, case)
                observers.append((b, worlds.snapshot(b, cc)))
            name = op["op"]
            if name == "serialize":
                # rendering A (tree, document, dict, type stub) is a read: it must not leak A's state anywhere
                try:
                    how = op["how"]
                    a = state["cfg"]
                    if how == "to_tree":
                        a.to_tree()
                    elif how == "to_tree-virtual":
                        a.to_tree(virtual=True)
                    elif how.startswith("dumps"):
                        a.dumps(how.split("-")[1])
                    elif how == "asdict":
                        cc.asdict(a)
                    else:
                        cc.generate_stub(a, class_name="A")
                    R.label("serialize")
                except Exception:
                    pass
            elif name == "include_load":
                incs = [p for p, nd in leaves if nd["kind"] == "include"]
                ipath = incs[op["which"] % len(incs)]
                fmtr = cc.ConfigFormat.get(op["fmt"])
                target = os.path.join(d, "included-%d.%s" % (i, op["fmt"]))
                with open(target, "wb") as fp:
                    fp.write(fmtr.dumps(state["cfg"], {}))
                tree = target
                for k in reversed(ipath):
                    tree = {k: tree}
                try:
                    state["cfg"].loads(fmtr.dumps(state["cfg"], tree), op["fmt"])
                    R.label("include-load")
                except Exception:
                    pass  # (e.g. a required field elsewhere is unset: the load is rejected after the include was processed)
                    R.label("include-load")
            elif name == "cross_assign":
                # A takes over the value B holds for one field; later in-place edits of A's value must not reach B
                if observers:
                    path, node = leaves[op["leaf"] % len(leaves)]
                    try:
                        ops.set_via(state["cfg"], path, worlds.get_path(observers[0][0], path), "setattr")
                        R.label("cross-assign")
                        mine = worlds.get_path(state["cfg"], path)
                        if mine:  # ... and immediately edits its own copy in place
                            if isinstance(mine, dict):
                                mine.pop(next(iter(mine)))
                            else:
                                mine.pop()
                            inplace = True
                            R.label("cross-assign+edit")
                    except Exception:
                        pass
            elif name == "raw_inplace":
                try:
                    edited = _raw_inplace(state["cfg"], leaves, op)
                except ValueError:
                    # the untyped field holds a typed proxy taken over from another field: that proxy validates (and
                    # may reject) what is put into it
                    edited = False
                if edited:
                    inplace = True
                    R.label("inplace:untyped")
            else:
                out = ops.apply_op(world, state, op)
                if out.kind == "ok" and name in ("listop", "dictop", "slistop"):
                    inplace = True
                    R.label("inplace:typed")
                if out.kind == "ok" and name == "dyn_set":
                    dyn = True
                    dyn_keys.append(out.target)
                    R.label("dynamic-add")
            for b, snap in observers:
                now = worlds.snapshot(b, cc)
                if not R.check(now == snap, "isolated", name + (":" + str(op.get("what")) if op.get("what") else ""),
                               lambda: "op %r on A changed B: %s" % (op.get("op"), worlds.diff(snap, now))):
                    observers[observers.index((b, snap))] = (b, now)

        # systematic pass: A takes over, one by one, every typed container a further configuration C holds and edits its
        # own value in place; C must not see any of it
        containers = [(p, nd) for p, nd in leaves if (nd["kind"] == "list" and nd.get("item") and nd["item"]["kind"] != "any")
                      or (nd["kind"] == "dict" and (nd.get("keyf") or nd.get("valuef")))]
        if containers:
            c = world.schema(key_filename=keyfile)
            _fill_observer(world, c, case)
            csnap = worlds.snapshot(c, cc)
            for path, node in containers:
                theirs = worlds.get_path(c, path)
                if not theirs:
                    continue
                try:
                    ops.set_via(state["cfg"], path, theirs, "setattr")
                except Exception:
                    continue
                mine = worlds.get_path(state["cfg"], path)
                try:
                    if isinstance(mine, dict):
                        mine.pop(next(iter(mine)))
                    else:
                        mine.pop()
                except Exception:
                    continue
                inplace = True
                R.label("cross-assign+edit:" + node["kind"])
                now = worlds.snapshot(c, cc)
                if not R.check(now == csnap, "isolated", "cross_assign:" + node["kind"],
                               lambda: "A took over C's %s and edited its own value in place; C changed: %s" % (".".join(path), worlds.diff(csnap, now))):
                    csnap = now
            observers.append((c, csnap))

        # two pristine (hence EQUAL) configurations: one takes over the other's typed containers one by one and edits its own
        from . import c02 as _c02
        d1, d2 = world.schema(key_filename=keyfile), world.schema(key_filename=keyfile)
        for path, node in containers:
            theirs = worlds.get_path(d1, path)
            if theirs is None:
                continue
            item = None
            for raw in case.get("bfill", {}).get(".".join(path), []):
                value = _c02._filter_valid(node, specs.realize(raw), world.ctx)
                if value and isinstance(value, (dict, list, tuple)):
                    item = list(value.items())[0] if isinstance(value, dict) else value[0]
                    break
            if item is None:
                continue
            d1snap = worlds.snapshot(d1, cc)
            try:
                ops.set_via(d2, path, theirs, "setattr")
                mine = worlds.get_path(d2, path)
                if isinstance(mine, dict):
                    mine[item[0]] = item[1]
                else:
                    mine.append(item)
            except Exception:
                continue
            R.label("equal-twins:take-over+edit")
            now = worlds.snapshot(d1, cc)
            R.check(now == d1snap, "isolated", "equal-twins:" + node["kind"],
                    lambda: "two pristine configurations: D2 took over D1's %s and edited its own value in place; D1 changed: %s" % (".".join(path), worlds.diff(d1snap, now)))

        # a further configuration is filled from A's own tree (to_tree -> load_tree, no document in between); after that,
        # in-place edits of A's untyped lists / dicts must not show in it, nor the other way round
        try:
            e = world.schema(key_filename=keyfile)
            e.load_tree(state["cfg"].to_tree())
        except Exception:
            e = None
        if e is not None:
            R.label("filled-from-tree")
            from .c01 import _without
            any_paths = [path for path, node in leaves if node["kind"] == "any"]

            def esnapshot(cfg):
                # (an AnyField hands out the very object it holds - also to to_tree(): if the history parked a list / dict
                #  value in one, E was given that object by the harness itself, which is caller-made aliasing)
                snap = worlds.snapshot(cfg, cc)
                for ap in any_paths:
                    snap = _without(snap, ap)
                return snap
            esnap = esnapshot(e)
            for path, node in leaves:
                # (list / dict fields render a container of their own; an AnyField hands out the very object it was given,
                #  so a caller who feeds that into another configuration has made the alias himself)
                if node["kind"] not in ("list", "dict"):
                    continue
                mine = worlds.get_path(state["cfg"], path)
                try:
                    if isinstance(mine, list):
                        mine.append(mine[0] if mine else 0)
                    elif isinstance(mine, dict):
                        mine["zz-edited-in-place"] = 1
                    else:
                        continue
                except Exception:
                    continue
                inplace = True
                now = esnapshot(e)
                if not R.check(now == esnap, "isolated", "filled-from-tree:" + node["kind"],
                               lambda: "E was filled from A.to_tree(); an in-place edit of A's %s changed E: %s" % (".".join(path), worlds.diff(esnap, now))):
                    esnap = now
            asnap = esnapshot(state["cfg"])
            for path, node in leaves:
                if node["kind"] not in ("list", "dict"):
                    continue
                theirs = worlds.get_path(e, path)
                try:
                    if isinstance(theirs, list):
                        theirs.append(theirs[0] if theirs else 0)
                    elif isinstance(theirs, dict):
                        theirs["zz-edited-in-place-2"] = 1
                    else:
                        continue
                except Exception:
                    continue
                now = esnapshot(state["cfg"])
                if not R.check(now == asnap, "isolated", "filled-from-tree:reverse:" + node["kind"],
                               lambda: "E was filled from A.to_tree(); an in-place edit of E's %s changed A: %s" % (".".join(path), worlds.diff(asnap, now))):
                    asnap = now

        if when == "after" or not observers:
            b = world.schema(key_filename=keyfile)
            snap = _mask(worlds.snapshot(b, cc))
            R.check(snap == pristine, "isolated", "built-later",
                    lambda: "a configuration built after A's history differs from a pristine one: %s" % worlds.diff(pristine, snap))
            observers.append((b, worlds.snapshot(b, cc)))

        schema_after = schema_snapshot(cc, world.schema)
        R.check(schema_before == schema_after, "schema-const", "snapshot",
                lambda: "the schema changed: %s" % worlds.diff(schema_before, schema_after))
        for path in dyn_keys:
            for b, _ in observers:
                try:
                    parent = worlds.get_path(b, path[:-1])
                    present = path[-1] in parent._data or path[-1] in parent.to_tree() or (".".join(path) in b)
                except Exception:
                    present = False
                R.check(not present, "dynamic-local", "observer", "dynamic field %s of A is visible in B" % ".".join(path))
        if (inplace or dyn) and observers:
            R.nontrivial = True
