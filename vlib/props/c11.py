"""C11 — a load that returns means required fields are set and every validator passed."""
import os

from hypothesis import strategies as st

from .. import ops, refmodel, sandbox, specs, trees, worlds
from ..refmodel import A
from . import c02

ID = "C11"
LEVEL = "exploration"
DESIGN_REF = "DESIGN.md §4 C11"
RULE = (
    "Model-based testing. A case = (schema spec with required fields of every kind, defaults, logged field-level "
    "validators and logged schema-level validators (pure predicates: always-ok, at-most-k / at-least-k values set) on "
    "the root, nested schemas, config types and item schemas, feature flags at any depth (default on / off / unset); "
    "a prior state (some fields assigned); a tree - complete, partial or empty, every value individually valid, so "
    "the only reasons to fail are the ones this property is about - loaded by load_tree or as a document in a "
    "random format; list items to insert). The model predicate ok(state) is evaluated by the harness on the ACTUAL "
    "state through public reads: every enabled configuration (all its feature flags truthy; nothing below a "
    "disabled one is looked at) has every required field set (non-None; non-empty for strings, lists, dicts, "
    "secrets) and every schema validator's predicate holds. Oracle: (sound) a load that returned implies ok(state) "
    "and every schema validator of every enabled configuration - and every field validator of a field with a "
    "value - appears as passed in the invocation log of that call; (validate-iff) on every reachable state "
    "validate() raises exactly when ok(state) is false; (collect) validate(collect_errors=True) is non-empty "
    "exactly when validate() raises; (items) appending / inserting / loading a list item that breaches its own "
    "schema raises and a conforming one is accepted. Non-trivial = a required field or validator at depth >= 2 or "
    "in a list item, and at least one feature flag."
)
ASSUMPTIONS = [
    "exemption is by subtree: validate() does not descend below a configuration whose flag is off (the statement's "
    "'as far as its own fields and validators go'); the soundness clause only ever demands what both readings demand",
    "items of configuration lists are judged when loaded or inserted (the statement), not by a later validate()",
]
REQUIRED = ["has:cross-validator", "load:returned", "load:raised", "flag:off", "flag:on", "has:schema-validator", "has:required", "validate:raises",
            "validate:returns", "item:breach", "item:ok", "route:load_tree", "route:loads", "item:reinserted"]
LEVEL_TEXT = (
    "Generated schemas/validators/flags/trees with an independent ok(state) predicate and a validator invocation "
    "log; kills mutants that skip recursion, use any() over flags, swallow errors in collecting mode or forget the "
    "final validate() in load_tree."
)
LEVEL_NOTE = "Trusted: CPython, Hypothesis, the ok(state) predicate and validator pool (vlib/refmodel.py)."
TECHNIQUE = "model-based property testing (Hypothesis): independent validity predicate + validator invocation log"

EMPTY_KINDS = refmodel.STRING_KINDS + ("list", "dict", "secure", "include")


def selftest():
    refmodel.selftest()


def budget(tier):
    if tier == "quick":
        return {"cases": 400, "shards": 3}
    return {"cases": 3000, "shards": 16}


def _decorate(node, draws, counter):
    """Add schema-level validators to containers (deterministically from a drawn list) and a cross-field field
    validator to the first pair of unconstrained-enough integer siblings of every configuration."""
    kids = []
    for c in node["children"]:
        if c["kind"] in ("schema", "configtype", "schemalist"):
            c = _decorate(c, draws, counter)
        kids.append(c)
    if node.get("key") is None and not any(c["key"] == "zzlo" for c in kids):
        # every root gets one dependent pair: zzlo must not exceed zzhi (zzlo is declared, hence loaded, first)
        base = {"kind": "int", "req": False, "opts": {}, "default": {"mode": "none"}}
        kids.append(dict(base, key="zzlo", validator="v_cross", cross_with="zzhi"))
        kids.append(dict(base, key="zzhi", validator=None))
    ints = [i for i, c in enumerate(kids) if c["kind"] in ("int", "port") and not c.get("validator")]
    if len(ints) >= 2:
        a, b = ints[0], ints[1]
        kids[a] = dict(kids[a], validator="v_cross", cross_with=kids[b]["key"])
    d = draws[counter[0] % len(draws)]
    counter[0] += 1
    out = dict(node, children=kids)
    if d is not None:
        out["svalidators"] = d
    return out


def strategy(tier):
    sv = st.one_of(st.just({"name": "sv_ok"}), st.fixed_dictionaries({"name": st.just("sv_max_set"), "k": st.integers(0, 4)}),
                   st.fixed_dictionaries({"name": st.just("sv_min_set"), "k": st.integers(0, 2)}))
    draws = st.lists(st.one_of(st.none(), st.lists(sv, min_size=1, max_size=2)), min_size=4, max_size=8)

    def hist(spec):
        leaves = ops.spec_leaves(spec)
        cand = {".".join(p): c02.candidates(nd) for p, nd in leaves}
        slists = [(p, nd) for p, nd in leaves if nd["kind"] == "schemalist"]
        item_ops = st.just([])
        if slists:
            def one(i):
                nd = slists[i][1]
                return st.fixed_dictionaries({"sl": st.just(i), "tree": ops.subtree(nd, full=False), "full": ops.subtree(nd, full=True),
                                              "how": st.sampled_from(["append", "insert", "load", "append-config"]), "use_full": st.booleans()})
            item_ops = st.lists(st.integers(0, len(slists) - 1).flatmap(one), max_size=3)
        return st.fixed_dictionaries({
            "spec": st.just(spec), "prior": st.fixed_dictionaries(cand) if cand else st.just({}), "prior_pick": st.lists(st.integers(0, 40), max_size=5),
            "tree": st.fixed_dictionaries(cand) if cand else st.just({}), "tree_pick": st.one_of(st.just("all"), st.just("none"), st.lists(st.integers(0, 40), max_size=6)),
            "route": st.sampled_from(["load_tree", "loads"]), "fmt": st.sampled_from(trees.FORMATS), "items": item_ops,
            "flag_values": st.lists(st.sampled_from([True, False, None, True]), min_size=3, max_size=3),
        })
    return st.tuples(worlds.schema_spec(tier), draws).map(lambda t: _decorate(t[0], t[1], [0])).flatmap(hist)


# -- the model predicate ------------------------------------------------------------------------------------------


def enabled(cc, cfg, node):
    for c in node["children"]:
        if c["kind"] == "featureflag" and not getattr(cfg, c["key"]):
            return False
    return True


def breaches(world, cfg, node, path=(), out=None, enabled_cfgs=None):
    """All reasons why ok(state) is false; also collects the enabled configurations."""
    cc = world.cc
    out = [] if out is None else out
    if not enabled(cc, cfg, node):
        return out
    if enabled_cfgs is not None:
        enabled_cfgs.append((path, node, cfg))
    for c in node["children"]:
        key, kind = c["key"], c["kind"]
        if kind in ("virtual", "method", "include"):
            continue
        v = getattr(cfg, key)
        if kind in ("schema", "configtype"):
            if isinstance(v, cc.Config):
                breaches(world, v, c, path + (key,), out, enabled_cfgs)
            continue
        if c.get("req") and (v is None or (kind in EMPTY_KINDS + ("schemalist",) and not v)):
            out.append("required %s is unset/empty" % ".".join(path + (key,)))
        if c.get("validator") and v is not None and kind not in ("schemalist",):
            try:
                refmodel.run_validator(c["validator"], v, cfg, c)
            except ValueError as exc:
                out.append("field validator %s of %s fails on the held value: %s" % (c["validator"], ".".join(path + (key,)), exc))
    for sv in node.get("svalidators") or []:
        try:
            refmodel.run_schema_validator(cc, sv, cfg)
        except ValueError as exc:
            out.append("schema validator %s of %s fails: %s" % (sv["name"], ".".join(path) or "<root>", exc))
    return out


def _has(node, pred, depth=0):
    for c in node["children"]:
        if pred(c, depth):
            return True
        if c["kind"] in ("schema", "configtype", "schemalist") and _has(c, pred, depth + 1):
            return True
    return False


def _check_validate(world, cfg, R, when):
    """validate() raises  <=>  ok(state) is false  <=>  collecting mode returns errors."""
    cc = world.cc
    spec = world.spec
    why = breaches(world, cfg, spec)
    try:
        cfg.validate()
        raised = None
    except Exception as exc:
        raised = exc
    try:
        collected = cfg.validate(collect_errors=True)
        cerr = None
    except Exception as exc:
        collected, cerr = None, exc
    R.label("validate:raises" if raised else "validate:returns")
    R.check(cerr is None, "collect", "raises", lambda: "validate(collect_errors=True) raised %r" % (cerr,))
    if cerr is None:
        R.check(bool(collected) == (raised is not None), "collect", "iff",
                lambda: "%s: collecting mode returned %r but raising mode %s" % (when, collected, "raised %r" % (raised,) if raised else "returned"))
        R.check(all(isinstance(e, cc.ValidationError) for e in collected), "collect", "types", "collected errors are not ValidationErrors")
    if raised is not None:
        R.check(bool(why), "validate-iff", "over-rejects", lambda: "%s: validate() raised %r although every enabled configuration meets its rules" % (when, raised))
        R.check(isinstance(raised, cc.ValidationError), "validate-iff", "type", lambda: "validate() raised %r" % (raised,))
    else:
        R.check(not why, "validate-iff", "misses", lambda: "%s: validate() returned although: %s" % (when, "; ".join(why[:3])))


def exhaustive(tier):
    """Items of a list of configurations that already belong (or belonged) to the list, made invalid in place - through a
    schema validator over two fields, or by resetting a required field - and put into the list again."""
    for configtype in (False, True):
        for n in (1, 2, 3):
            for j in range(n):
                for how in ("cross-validator", "required-reset"):
                    for taken_out in (False, True):
                        for what in ("append", "insert0", "insert-end", "setitem", "extend1", "iadd", "assign-list"):
                            yield {"mode": "reinsert", "configtype": configtype, "n": n, "j": j, "how": how, "taken_out": taken_out, "what": what}
    for depth in (1, 2):
        for order in ("validator-first", "fields-first"):
            yield {"mode": "declared-order", "depth": depth, "order": order}
    # a schema-level validator that rejects by raising something other than ValueError (a failed look-up, an application
    # error): the load / validate() raises the library's validation error all the same, and collecting mode returns a list
    for exc in ("key", "runtime", "lookup", "zero", "custom", "attribute", "index", "value"):
        for place in ("root", "nested", "deep", "list-item", "configtype"):
            yield {"mode": "odd-schema-validator", "exc": exc, "place": place}
    # required fields of every emptiable kind x the other options that speak about length or content x empty values (as
    # given, after stripping, an empty container) x placement x route: a load / validate() that returns leaves none empty
    for kind in ("str", "str-strip", "host", "url", "filename", "loglevel", "list", "typed-list", "dict", "typed-dict", "secure"):
        for min_len in ((None, 0, 1) if kind in ("str", "str-strip") else (None,)):
            for place in ("root", "nested", "list-item"):
                for route in ("load_tree", "loads-json", "loads-yaml", "default+validate", "ctor"):
                    yield {"mode": "required-empty", "kind": kind, "min_len": min_len, "place": place, "route": route}


class _AppError(Exception):
    pass


def _odd_schema_validator_case(case, R):
    cc = sandbox._state["cc"]
    exc_kind, place = case["exc"], case["place"]
    R.label("odd-schema-validator", "odd-schema-validator:" + exc_kind)
    R.nontrivial = True
    calls = []

    def rule(cfg):
        calls.append(1)
        if cfg.lo is not None and cfg.hi is not None and cfg.lo > cfg.hi:
            raise {"key": KeyError, "runtime": RuntimeError, "lookup": LookupError, "zero": ZeroDivisionError, "custom": _AppError, "attribute": AttributeError,
                   "index": IndexError, "value": ValueError}[exc_kind]("lo must not exceed hi")
    part = cc.Schema()
    part.lo = cc.IntField(default=0)
    part.hi = cc.IntField(default=10)
    cc.validator(part)(rule)
    schema = cc.Schema()
    schema.other = cc.IntField(default=1)
    bad, good = {"lo": 5, "hi": 2}, {"lo": 1, "hi": 2}
    if place == "root":
        schema = part
        schema.other = cc.IntField(default=1)
        wrap = lambda t: t
    elif place == "nested":
        schema.part = part
        wrap = lambda t: {"part": t}
    elif place == "deep":
        schema.a.b.part = part
        wrap = lambda t: {"a": {"b": {"part": t}}}
    elif place == "configtype":
        schema.part = cc.make_type(part, "OddValidated", module=__name__)
        wrap = lambda t: {"part": t}
    else:
        schema.rows = cc.ListField(part)
        wrap = lambda t: {"rows": [dict(good), t]}
    for route in ("load_tree", "loads-json", "loads-yaml", "validate", "collect"):
        for tree, should_pass in ((good, True), (bad, False)):
            cfg = schema()
            err = None
            result = None
            try:
                if route == "load_tree":
                    cfg.load_tree(wrap(dict(tree)))
                elif route.startswith("loads"):
                    fmt = route.split("-")[1]
                    cfg.loads(cc.ConfigFormat.get(fmt).dumps(cfg, wrap(dict(tree))), fmt)
                else:
                    # put the state in through leaf assignments (each valid on its own), then validate explicitly
                    if place == "list-item":
                        continue
                    target = cfg if place == "root" else cfg.part if place in ("nested", "configtype") else cfg.a.b.part
                    target.hi = 1000
                    target.lo, target.hi = tree["lo"], tree["hi"]
                    result = cfg.validate(collect_errors=(route == "collect"))
            except Exception as exc:
                err = exc
            site = "odd-schema-validator:%s:%s" % (route, place)
            if should_pass:
                R.check(err is None and not result, "ran", site + ":valid", lambda: "valid data: %s raised %r / returned %r" % (route, err, result))
                continue
            if route == "collect":
                R.check(err is None and result, "collect", site, lambda: "collecting mode with a schema validator that raises %s: %s" % (
                    exc_kind, "raised %r" % (err,) if err else "returned %r" % (result,)))
            else:
                R.check(isinstance(err, cc.ValidationError), "load-sound", site,
                        lambda: "a schema validator rejecting by %s: %s %s" % (exc_kind, route, "returned normally" if err is None else "raised %r instead of the validation error" % (err,)))


def _required_empty_case(case, R):
    cc = sandbox._state["cc"]
    kind, min_len, place, route = case["kind"], case["min_len"], case["place"], case["route"]
    R.label("required-empty", "required-empty:" + kind)
    R.nontrivial = True
    kw = {} if min_len is None else {"min_len": min_len}
    empties = {"str": [""], "str-strip": ["", "   ", "\n\t"], "host": [""], "url": [""], "filename": [""], "loglevel": [""], "list": [[]], "typed-list": [[]],
               "dict": [{}], "typed-dict": [{}], "bytes": [""], "secure": [""]}[kind]

    def make(default=None):
        extra = {} if default is None else {"default": default}
        return {"str": lambda: cc.StringField(required=True, **kw, **extra), "str-strip": lambda: cc.StringField(required=True, transform_strip=True, **kw, **extra),
                "host": lambda: cc.HostnameField(required=True, **extra), "url": lambda: cc.UrlField(required=True, **extra), "filename": lambda: cc.FilenameField(required=True, **extra),
                "loglevel": lambda: cc.LogLevelField(required=True, **extra), "list": lambda: cc.ListField(required=True, **extra),
                "typed-list": lambda: cc.ListField(cc.IntField(), required=True, **extra), "dict": lambda: cc.DictField(required=True, **extra),
                "typed-dict": lambda: cc.DictField(cc.StringField(), cc.IntField(), required=True, **extra), "bytes": lambda: cc.BytesField(required=True, **extra),
                "secure": lambda: cc.SecureField(required=True, **extra)}[kind]()
    for empty in empties:
        schema = cc.Schema()
        schema.other = cc.IntField(default=1)
        try:
            field = make(empty if route == "default+validate" else None)
        except Exception:
            continue  # (a default the field refuses outright cannot be declared)
        if place == "root":
            schema.f = field
            tree = {"f": empty}
            read = lambda cfg: cfg.f
        elif place == "nested":
            schema.a.b.f = field
            tree = {"a": {"b": {"f": empty}}}
            read = lambda cfg: cfg.a.b.f
        else:
            item = cc.Schema()
            item.f = field
            item.tag = cc.StringField(default="t")
            schema.rows = cc.ListField(item)
            tree = {"rows": [{"tag": "x", "f": empty}]}
            read = lambda cfg: cfg.rows[0].f
        with sandbox.CaseDir() as d:
            try:
                if route == "ctor":
                    if place != "root":
                        return
                    cfg = schema(key_filename=os.path.join(d, "key"), f=empty)
                    cfg.validate()
                else:
                    cfg = schema(key_filename=os.path.join(d, "key"))
                    if route == "load_tree":
                        cfg.load_tree(tree)
                    elif route == "default+validate":
                        if place == "list-item":
                            cfg.rows = [{"tag": "x"}]
                        cfg.validate()
                    else:
                        fmt = route.split("-")[1]
                        cfg.loads(cc.ConfigFormat.get(fmt).dumps(cfg, tree), fmt)
                returned = True
            except Exception:
                returned = False
            if not returned:
                R.label("required-empty:rejected")
                continue
            try:
                held = read(cfg)
            except Exception:
                continue
            blank = held is None or (hasattr(held, "__len__") and len(held) == 0)
            R.check(not blank, "load-sound", "required-empty:%s:%s" % (kind, route),
                    lambda: "%s(required=True%s) at %s: %s of the empty value %r returned and the field holds %r" % (
                        kind, "" if min_len is None else ", min_len=%d" % min_len, place, route, empty, held))
            errs = cfg.validate(collect_errors=True)
            R.check(bool(errs) == blank, "collect", "required-empty:" + kind, lambda: "collecting mode reports %r for a required field holding %r" % (errs, held))


def _declared_order_case(case, R):
    """A validator is registered on a nested schema that came into being through attribute access - before or after that
    schema got its fields. Either way it must run, and its verdict must count, for every load and validate()."""
    cc = sandbox._state["cc"]
    schema = cc.Schema()
    calls = []

    def rule(cfg):
        calls.append(1)
        if cfg.lo is not None and cfg.hi is not None and cfg.lo > cfg.hi:
            raise ValueError("lo must not exceed hi")
    path = ("tls",) if case["depth"] == 1 else ("net", "tls")

    def sub():
        node = schema
        for k in path:
            node = getattr(node, k)
        return node
    if case["order"] == "validator-first":
        cc.validator(sub())(rule)      # the nested schema exists (auto-created) but has no fields yet
        sub().lo = cc.IntField(default=0)
        sub().hi = cc.IntField(default=10)
    else:
        sub().lo = cc.IntField(default=0)
        sub().hi = cc.IntField(default=10)
        cc.validator(sub())(rule)
    schema.other = cc.IntField(default=1)
    R.label("validator-declared:" + case["order"])
    R.nontrivial = True
    tree_ok, tree_bad = {"lo": 1, "hi": 2}, {"lo": 5, "hi": 2}
    for k in reversed(path):
        tree_ok, tree_bad = {k: tree_ok}, {k: tree_bad}
    for route in ("load_tree", "loads", "validate"):
        cfg = schema()
        del calls[:]
        try:
            if route == "load_tree":
                cfg.load_tree(tree_ok)
            elif route == "loads":
                cfg.loads(cc.ConfigFormat.get("json").dumps(cfg, tree_ok), "json")
            else:
                cfg.validate()
            err = None
        except Exception as exc:
            err = exc
        R.check(err is None and calls, "ran", "declared-%s:%s" % (case["order"], route),
                lambda: "valid data, %s: %s; the nested schema's validator ran %d time(s)" % (route, "returned" if err is None else "raised %r" % (err,), len(calls)))
        cfg = schema()
        try:
            if route == "load_tree":
                cfg.load_tree(tree_bad)
            elif route == "loads":
                cfg.loads(cc.ConfigFormat.get("json").dumps(cfg, tree_bad), "json")
            else:
                node = cfg
                for k in path:
                    node = getattr(node, k)
                node.lo = 5
                node.hi = 2
                cfg.validate()
            err = None
        except Exception as exc:
            err = exc
        R.check(isinstance(err, cc.ValidationError), "sound", "declared-%s:%s" % (case["order"], route),
                lambda: "data that breaks the nested schema's validator, %s: %s" % (route, "returned normally" if err is None else "raised %r" % (err,)))
        errors = []
        try:
            cfg2 = schema()
            node = cfg2
            for k in path:
                node = getattr(node, k)
            node.lo, node.hi = 5, 2
            errors = cfg2.validate(collect_errors=True)
        except Exception as exc:
            errors = [exc]
        R.check(bool(errors), "collect", "declared-%s" % case["order"], "collecting mode returned no error for data that breaks the nested schema's validator")


def _reinsert_case(case, R):
    cc = sandbox._state["cc"]
    item = cc.Schema()
    item.lo = cc.IntField(default=0)
    item.hi = cc.IntField(default=10)
    item.name = cc.StringField(required=True)
    calls = []

    @cc.validator(item)
    def lo_le_hi(cfg):
        calls.append(id(cfg))
        if cfg.lo is not None and cfg.hi is not None and cfg.lo > cfg.hi:
            raise ValueError("lo must not exceed hi")
    schema = cc.Schema()
    schema.items = cc.ListField(cc.make_type(item, "Item", module=__name__) if case["configtype"] else item)
    cfg = schema()
    cfg.items = [{"lo": k, "hi": k + 5, "name": "n%d" % k} for k in range(case["n"])]
    lst = cfg.items
    victim = lst[case["j"]]
    if case["taken_out"]:
        lst.pop(case["j"])
    if case["how"] == "cross-validator":
        victim.lo = 99  # each field is fine on its own, the item as a whole is not
    else:
        cc.reset_value(victim, "name")  # a required field of the item is unset again
    del calls[:]
    what = case["what"]
    try:
        if what == "append":
            lst.append(victim)
        elif what == "insert0":
            lst.insert(0, victim)
        elif what == "insert-end":
            lst.insert(len(lst), victim)
        elif what == "setitem":
            if not lst:
                return
            lst[0] = victim
        elif what == "extend1":
            lst.extend([victim])
        elif what == "iadd":
            lst += [victim]
        else:
            cfg.items = [victim]
        raised = None
    except Exception as exc:
        raised = exc
    R.label("item:reinserted")
    R.nontrivial = True
    R.check(isinstance(raised, cc.ValidationError), "item-rule", "reinsert:%s:%s" % (case["how"], what),
            lambda: "an item that %s was put into its list again with %s: %s" % (
                "violates its schema validator" if case["how"] == "cross-validator" else "lacks a required field", what,
                "the call returned normally" if raised is None else "raised %r" % (raised,)))
    if case["how"] == "cross-validator":
        R.check(id(victim) in calls, "ran", "reinsert:" + what, "the item schema's validator was not run for the inserted item")


def run_case(case, R):
    if case.get("mode") == "reinsert":
        return _reinsert_case(case, R)
    if case.get("mode") == "odd-schema-validator":
        return _odd_schema_validator_case(case, R)
    if case.get("mode") == "required-empty":
        return _required_empty_case(case, R)
    if case.get("mode") == "declared-order":
        return _declared_order_case(case, R)
    cc = sandbox._state["cc"]
    spec = case["spec"]
    if _has(spec, lambda c, d: c["kind"] == "featureflag"):
        has_flag = True
    else:
        has_flag = False
    deep = _has(spec, lambda c, d: d >= 1 and (c.get("req") or c.get("svalidators")))
    if _has(spec, lambda c, d: bool(c.get("svalidators"))) or spec.get("svalidators"):
        R.label("has:schema-validator")
    if _has(spec, lambda c, d: bool(c.get("req"))):
        R.label("has:required")
    if _has(spec, lambda c, d: c.get("validator") == "v_cross"):
        R.label("has:cross-validator")
    if has_flag and deep:
        R.nontrivial = True
    with sandbox.CaseDir() as d:
        world = worlds.World(cc, spec)
        keyfile = os.path.join(d, "key")
        cfg = world.schema(key_filename=keyfile)
        leaves = ops.spec_leaves(spec)
        ctx = world.ctx

        def first_valid(nd, cands):
            for raw in cands:
                value = specs.realize(raw)
                if nd["kind"] == "schemalist":
                    if isinstance(value, list):
                        value = specs.realize([ops.resolve_tree(nd, t, ctx, to_basic=False) if isinstance(t, dict) else t for t in value])
                        value = c02._filter_valid(nd, value, ctx)
                        return ("ok", value)
                    continue
                value = c02._filter_valid(nd, value, ctx)
                if refmodel.ref(nd, value, ctx)[0] == A and c02._is_plain_or_bytes(value):
                    return ("ok", value)
            return None

        # ---- feature flags and prior state ---------------------------------------------------------------------
        flags = [(p, nd) for p, nd in leaves if nd["kind"] == "featureflag"]
        for i, (p, nd) in enumerate(flags):
            v = case["flag_values"][i % 3]
            try:
                ops.set_via(cfg, p, v, "setattr")
            except Exception:
                pass
            R.label("flag:" + ("on" if v else "off"))
        picks = {i % max(len(leaves), 1) for i in case["prior_pick"]}
        for i, (p, nd) in enumerate(leaves):
            if i in picks and nd["kind"] != "featureflag":
                got = first_valid(nd, case["prior"].get(".".join(p), []))
                if got:
                    try:
                        ops.set_via(cfg, p, got[1], "setattr")
                    except Exception:
                        pass
        c02._sanitize(world, cfg)
        _check_validate(world, cfg, R, "prior state")

        # ---- the load ------------------------------------------------------------------------------------------------
        tp = case["tree_pick"]
        chosen = set(range(len(leaves))) if tp == "all" else set() if tp == "none" else {i % max(len(leaves), 1) for i in tp}
        tree = {}
        for i, (p, nd) in enumerate(leaves):
            if i not in chosen or nd["kind"] in ("featureflag", "include"):
                continue
            got = first_valid(nd, case["tree"].get(".".join(p), []))
            if not got:
                continue
            if nd["kind"] == "schemalist":
                basic = [_keep_valid(nd, t, ctx) for t in got[1] if isinstance(t, dict)]
            else:
                basic = ops.basic_form(nd, got[1], ctx)
            node = tree
            for k in p[:-1]:
                node = node.setdefault(k, {})
            node[p[-1]] = basic
        route = case["route"]
        if route == "loads" and not ops.is_plain(tree, case["fmt"]):
            route = "load_tree"
        R.label("route:" + route)
        mark = len(world.vlog)
        try:
            if route == "loads":
                cfg.loads(cc.ConfigFormat.get(case["fmt"]).dumps(cfg, tree), case["fmt"])
            else:
                cfg.load_tree(tree)
            err = None
        except Exception as exc:
            err = exc
        if err is None:
            R.label("load:returned")
            enabled_cfgs = []
            why = breaches(world, cfg, spec, enabled_cfgs=enabled_cfgs)
            R.check(not why, "sound", route, lambda: "%s returned although: %s" % (route, "; ".join(why[:3])))
            log = world.vlog[mark:]
            for path, node, c in enabled_cfgs:
                for sv in node.get("svalidators") or []:
                    hit = any(e[0] == "schema" and e[1] == path and e[2] == sv["name"] and e[3] == id(c) and e[4] for e in log)
                    R.check(hit, "sound", "schema-validator-not-run", lambda: "%s returned but schema validator %s of %s was not run (and passed) on the loaded configuration" % (route, sv["name"], ".".join(path) or "<root>"))
                for ch in node["children"]:
                    if ch.get("validator") and ch["kind"] not in ("virtual", "method", "schema", "configtype", "schemalist"):
                        if getattr(c, ch["key"]) is not None:
                            hit = any(e[0] == "field" and e[1] == path + (ch["key"],) and e[3] == id(c) and e[4] for e in log)
                            R.check(hit, "sound", "field-validator-not-run", lambda: "%s returned but the validator of %s was not run on the loaded configuration" % (route, ".".join(path + (ch["key"],))))
        else:
            R.label("load:raised")
        _check_validate(world, cfg, R, "after load")

        # a typed list / dict emptied in place is empty for the purposes of 'required'
        for p, nd in leaves:
            if nd["kind"] in ("list", "dict") and nd.get("req"):
                val = worlds.get_path(cfg, p)
                if val and hasattr(val, "clear"):
                    val.clear()
                    R.label("cleared-in-place")
        _check_validate(world, cfg, R, "after clearing required containers in place")

        # ---- list items are held to the same rule when loaded or inserted -------------------------------------------
        slists = [(p, nd) for p, nd in leaves if nd["kind"] == "schemalist"]
        for op in case["items"]:
            p, nd = slists[op["sl"] % len(slists)]
            raw = op["full"] if op["use_full"] else op["tree"]
            item_tree = _valid_item_tree(nd, raw, ctx)
            if item_tree is None:
                continue
            lst = worlds.get_path(cfg, p)
            if lst is None:
                try:
                    ops.set_via(cfg, p, [], "setattr")
                except Exception:
                    continue
                lst = worlds.get_path(cfg, p)
            # the verdict of the model: build a scratch item and ask the predicate
            item_type = world.types[("item",) + p]
            scratch = item_type()
            try:
                scratch.load_tree(item_tree, validate=False)
            except Exception:
                continue
            why = breaches(world, scratch, nd)
            R.label("item:breach" if why else "item:ok")
            before = len(lst)
            try:
                if op["how"] == "append":
                    lst.append(dict(item_tree))
                elif op["how"] == "insert":
                    lst.insert(0, dict(item_tree))
                elif op["how"] == "append-config":
                    lst.append(scratch)
                else:
                    parent = worlds.get_path(cfg, p[:-1])
                    parent.load_tree({p[-1]: [dict(item_tree)]}, validate=False)
                ierr = None
            except Exception as exc:
                ierr = exc
            if why:
                R.check(ierr is not None, "items", op["how"] + ":accepted-breach", lambda: "%s of a list item accepted although: %s" % (op["how"], "; ".join(why[:2])))
            else:
                R.check(ierr is None, "items", op["how"] + ":rejected-valid", lambda: "%s of a conforming list item raised %r" % (op["how"], ierr))


def _markers(nd, tree):
    return tree


def _valid_item_tree(nd, raw, ctx):
    """Item tree whose values are all individually valid (invalid leaves are dropped, never 'required' ones added)."""
    tree = specs.realize(ops.resolve_tree(nd, raw, ctx, to_basic=False)) if isinstance(raw, dict) else None
    if tree is None:
        return None
    return _keep_valid(nd, tree, ctx)


def _keep_valid(node, tree, ctx):
    out = {}
    by_key = {c["key"]: c for c in node["children"]}
    for k, v in tree.items():
        c = by_key.get(k)
        if c is None or c["kind"] in ("virtual", "method", "include"):
            continue
        if c["kind"] in ("schema", "configtype"):
            if isinstance(v, dict):
                out[k] = _keep_valid(c, v, ctx)
        elif c["kind"] == "schemalist":
            continue
        else:
            v = c02._filter_valid(c, v, ctx)
            if v is not None and refmodel.ref(c, v, ctx)[0] == A and c02._is_plain_or_bytes(v):
                out[k] = ops.basic_form(c, v, ctx)
    return out
