"""C20 — generated type stubs are valid Python that declares every field and method."""
import ast
import contextlib
import inspect
import io
import os

from hypothesis import strategies as st

from .. import sandbox, worlds
from .c13 import schema_snapshot

ID = "C20"
LEVEL = "exploration"
DESIGN_REF = "DESIGN.md §4 C20"
RULE = (
    "A case = (schema spec over every built-in field kind incl. nested schemas, config-type fields, lists of "
    "schemas / config types, typed lists and dicts, virtual fields, application-mode helper fields; 0-3 instance "
    "methods whose functions are compiled from generated source text with 0-3 positional parameters (with and "
    "without defaults), optional *args, 0-2 keyword-only parameters (with and without *args), optional **kwargs, "
    "annotations drawn from builtins, None, string annotations and typing generics or absent, return annotation "
    "or none; the input form: Schema, Config or ConfigType). Oracle: ast.parse succeeds and the module holds "
    "exactly one class of the requested name; the annotated attribute names equal all field keys except methods "
    "(virtual and helper fields included); __init__ takes self plus exactly the persistent fields; there is one "
    "def per instance method whose parameter names and kinds equal inspect.signature of the function minus its "
    "first parameter; captured stdout is empty and schema / configuration snapshots are unchanged. Non-trivial = "
    "a config-type or container field AND a method with keyword-only or variadic parameters."
)
ASSUMPTIONS = ["positional-only markers are not in the statement's list of parameter kinds and are not generated",
               "parameter defaults are not compared (the statement speaks of names and kinds)"]
REQUIRED = ["input:schema", "input:config", "input:configtype", "input:nested-schema", "input:nested-config", "has:empty-nested-schema", "has:configtype-field", "has:virtual", "has:method",
            "param:varargs", "param:kwonly", "param:varkw", "ann:generic", "ann:string", "ret:annotated"]
LEVEL_TEXT = (
    "Generated schemas and method signatures; the stub is parsed with ast and compared structurally with the "
    "schema spec and inspect.signature; kills mutants that drop virtual attributes, the keyword-only marker or leak "
    "methods into __init__."
)
LEVEL_NOTE = "Trusted: CPython ast / inspect, Hypothesis."
TECHNIQUE = "property-based testing (Hypothesis): generated schemas + signatures, structural oracle over the parsed stub"

def _make_local():
    class LocalThing:  # a class created by a class statement inside a function (its __qualname__ has '<locals>')
        pass
    return LocalThing


LocalThing = _make_local()
ANNOTATIONS = [None, None, "LocalThing", "typing.List[LocalThing]", "int", "str", "bool", "float", "bytes", "None", "'Config'", "'typing.List[str]'", "typing.List[int]",
               "typing.Optional[str]", "typing.Dict[str, int]", "typing.Any", "list", "dict", "typing.Union[int, str]", "typing.Callable[[int], str]"]
PNAMES = ["a", "b", "c", "x", "y", "value", "key", "flag", "n", "items"]


def budget(tier):
    if tier == "quick":
        return {"cases": 600, "shards": 2}
    return {"cases": 5000, "shards": 16}


def _method():
    ann = st.sampled_from(ANNOTATIONS)
    param = st.fixed_dictionaries({"ann": ann, "default": st.sampled_from([None, None, "1", "'s'", "None"])})
    return st.fixed_dictionaries({
        "first": st.sampled_from(["cfg", "config", "self", "obj"]),
        "pos": st.lists(param, max_size=3), "varargs": st.sampled_from([None, None, "args", "rest"]),
        "kwonly": st.lists(param, max_size=2), "varkw": st.sampled_from([None, None, "kwargs", "kw"]),
        "ret": st.sampled_from(ANNOTATIONS), "first_ann": st.sampled_from([None, None, "'Config'"]),
        # (the catch-all parameters may be annotated like any other)
        "varargs_ann": st.sampled_from([None, "int", "str", "typing.Any"]), "varkw_ann": st.sampled_from([None, "int", "typing.Any"]),
    })


# (keys that are also names of public Config members are legal field keys like any other)
MEMBER_NAMED = {"db": "save", "tags": "validate", "opts": "load", "data": "to_tree", "token": "dumps", "path": "full_path"}
NON_ASCII = {"alpha": "gr\u00f6\u00dfe", "port": "fl\u00e4che", "name": "\u540d\u524d", "x": "\u00f1", "level": "niveau_\u00e9", "host": "h\u00f4te", "mode": "\u03bc"}


def _non_ascii_keys(node):
    """Some keys become legal identifiers outside ASCII (fields, virtual fields, nested schemas alike)."""
    kids = []
    taken = {x["key"] for x in node["children"]}
    for c in node["children"]:
        if "children" in c:
            c = _non_ascii_keys(c)
        new = NON_ASCII.get(c["key"]) or (MEMBER_NAMED.get(c["key"]) if c["kind"] not in ("schema", "configtype", "schemalist") else None)
        if new and new not in taken:
            for v in node["children"]:
                if v["kind"] == "virtual" and v.get("of") == c["key"]:
                    v["of"] = new
            c = dict(c, key=new)
        kids.append(c)
    return dict(node, children=kids)


HELP_TEXTS = [
    "One line.",
    "First paragraph that runs\nover two lines.\n\nSecond paragraph with details.",
    "Uses \"double\" and 'single' quotes, a # hash and a \\ backslash.",
    "Indented continuation:\n    four spaces\n\tand a tab.",
    'Three quotes \"\"\" inside, and the word pass: def x(): ...',
    "Gr\u00f6\u00dfe in \u00b5m \u2014 nicht ASCII.",
    "trailing colon:\nclass Oops:",
]


def _with_help(node, counter=None):
    """Fields carry documentation (the help option): one line, several lines, quotes, hashes, code-like text."""
    counter = counter if counter is not None else [0]
    kids = []
    for c in node["children"]:
        if "children" in c:
            c = _with_help(c, counter)
        elif c["kind"] not in ("virtual", "method"):
            counter[0] += 1
            if counter[0] % 3:
                c = dict(c, help=HELP_TEXTS[counter[0] % len(HELP_TEXTS)])
        kids.append(c)
    return dict(node, children=kids)


def strategy(tier):
    spec = worlds.schema_spec(tier, depth=1, width=5 if tier == "quick" else 8,
                              allow=("schema", "configtype", "schemalist", "virtual", "featureflag")).map(_non_ascii_keys).map(_with_help)
    spec = st.tuples(spec, st.booleans()).map(lambda t: dict(t[0], dynamic=t[0].get("dynamic") or t[1]))
    return st.fixed_dictionaries({
        "spec": spec, "methods": st.lists(_method(), max_size=3), "input": st.sampled_from(["schema", "config", "configtype"]),
        "class_name": st.sampled_from(["Thing", "MyConfig", "_Cfg", "C1"]),
    })


def _source(name, m):
    names = iter(PNAMES)
    parts = [m["first"] + (": " + m["first_ann"] if m["first_ann"] else "")]
    seen_default = False
    for p in m["pos"]:
        n = next(names)
        s = n + (": " + p["ann"] if p["ann"] else "")
        if p["default"] or seen_default:
            s += " = " + (p["default"] or "None")
            seen_default = True
        parts.append(s)
    if m["varargs"]:
        parts.append("*" + m["varargs"] + (": " + m["varargs_ann"] if m.get("varargs_ann") else ""))
    elif m["kwonly"]:
        parts.append("*")
    for p in m["kwonly"]:
        n = next(names)
        s = n + (": " + p["ann"] if p["ann"] else "")
        if p["default"]:
            s += " = " + p["default"]
        parts.append(s)
    if m["varkw"]:
        parts.append("**" + m["varkw"] + (": " + m["varkw_ann"] if m.get("varkw_ann") else ""))
    ret = " -> " + m["ret"] if m["ret"] else ""
    return "def %s(%s)%s:\n    return None\n" % (name, ", ".join(parts), ret)


def _kinds(sig_params):
    out = []
    for p in sig_params:
        out.append((p.name, {inspect.Parameter.POSITIONAL_ONLY: "posonly", inspect.Parameter.POSITIONAL_OR_KEYWORD: "pos",
                             inspect.Parameter.VAR_POSITIONAL: "varargs", inspect.Parameter.KEYWORD_ONLY: "kwonly",
                             inspect.Parameter.VAR_KEYWORD: "varkw"}[p.kind]))
    return out


def _ast_kinds(fn):
    a = fn.args
    out = [(x.arg, "posonly") for x in a.posonlyargs] + [(x.arg, "pos") for x in a.args]
    if a.vararg:
        out.append((a.vararg.arg, "varargs"))
    out += [(x.arg, "kwonly") for x in a.kwonlyargs]
    if a.kwarg:
        out.append((a.kwarg.arg, "varkw"))
    return out


def run_case(case, R):
    cc = sandbox._state["cc"]
    import typing
    spec = case["spec"]
    with sandbox.CaseDir() as d:
        world = worlds.World(cc, spec)
        schema = world.schema
        mkeys = []
        funcs = {}
        for i, m in enumerate(case["methods"]):
            key = "do_%d" % i if i != 1 else "\u00f6ffnen_%d" % i  # (a method name outside ASCII, too)
            ns = {"typing": typing, "Config": cc.Config, "LocalThing": LocalThing}
            exec(compile(_source(key, m), "<generated>", "exec"), ns)  # harness-generated source only
            funcs[key] = ns[key]
            cc.instance_method(schema, key)(ns[key])
            mkeys.append(key)
            if m["varargs"]:
                R.label("param:varargs")
            if m["kwonly"]:
                R.label("param:kwonly")
            if m["varkw"]:
                R.label("param:varkw")
            anns = [p["ann"] for p in m["pos"] + m["kwonly"]] + [m["ret"]]
            if any(a and "LocalThing" in a for a in anns):
                R.label("ann:local-class")
            if any(a and a.startswith("typing.") for a in anns):
                R.label("ann:generic")
            if any(a and a.startswith("'") for a in anns):
                R.label("ann:string")
            if m["ret"]:
                R.label("ret:annotated")
        if mkeys:
            R.label("has:method")

        expected_attrs, persistent = [], []
        for c in spec["children"]:
            k, kind = c["key"], c["kind"]
            if kind == "method":
                continue
            expected_attrs.append(k)
            if kind != "virtual":
                persistent.append(k)
            if kind == "virtual":
                R.label("has:virtual")
            if kind == "configtype":
                R.label("has:configtype-field")
            if kind == "appmode" and c.get("opts", {}).get("create_helpers", True):
                for mode in c.get("opts", {}).get("modes") or ["development", "production"]:
                    expected_attrs.append("is_%s_mode" % mode)
        has_container = any(c["kind"] in ("configtype", "schemalist", "schema") or (c["kind"] in ("list", "dict")) for c in spec["children"])
        fancy = any(m["kwonly"] or m["varargs"] or m["varkw"] for m in case["methods"])
        if has_container and fancy:
            R.nontrivial = True

        how = case["input"]
        R.label("input:" + how)
        cname = case["class_name"]
        cfg = schema(key_filename=os.path.join(d, "k"))
        if spec.get("dynamic"):
            cfg.runtime_extra = 5  # a field added at run time to a dynamic configuration stays with that configuration
            R.label("dynamic-runtime-field")
        if how == "schema":
            target, kwargs = schema, {"class_name": cname}
        elif how == "config":
            target, kwargs = cfg, {"class_name": cname}
        else:
            target = cc.make_type(schema, cname, module=__name__)
            kwargs = {}
        snap_schema = schema_snapshot(cc, schema)
        snap_cfg = worlds.snapshot(cfg, cc, with_ids=True)
        buf = io.StringIO()
        try:
            with contextlib.redirect_stdout(buf):
                stub = cc.generate_stub(target, **kwargs)
        except Exception as exc:
            culprit = "configtype-field" if any(c["kind"] == "configtype" for c in spec["children"]) else "other"
            if isinstance(exc, TypeError) and "Unknown storage_type" in str(exc) and culprit == "other":
                culprit = "annotation"
            R.fail("raises", culprit, "generate_stub raised %r" % (exc,))
            return
        # generating again (also through another input form) must give the same text: no hidden state
        try:
            with contextlib.redirect_stdout(io.StringIO()):
                again = cc.generate_stub(target, **kwargs)
                other = cc.generate_stub(schema, class_name=cname) if how != "schema" else cc.generate_stub(cfg, class_name=cname)
            R.check(again == stub, "pure", "second-call-differs", lambda: "a second generate_stub call returns a different stub:\n%s\n--- vs ---\n%s" % (stub[:600], again[:600]))
            R.check(other == stub, "pure", "input-form-differs", lambda: "the stub depends on the input form (Schema / Config / ConfigType):\n%s\n--- vs ---\n%s" % (stub[:600], other[:600]))
        except Exception as exc:
            R.fail("pure", "second-call-raises", "a second generate_stub call raised %r" % (exc,))
        R.check(buf.getvalue() == "", "pure", "stdout", lambda: "generate_stub wrote to standard output: %r" % buf.getvalue()[:200])
        R.check(schema_snapshot(cc, schema) == snap_schema, "pure", "schema", "generate_stub changed the schema")
        R.check(worlds.snapshot(cfg, cc, with_ids=True) == snap_cfg, "pure", "config", "generate_stub changed the configuration")
        if not R.check(isinstance(stub, str), "parses", "type", "stub is %r" % type(stub)):
            return
        try:
            mod = ast.parse(stub)
        except SyntaxError as exc:
            R.fail("parses", "syntax", "stub is not valid Python: %s\n%s" % (exc, stub[:1500]))
            return
        classes = [n for n in mod.body if isinstance(n, ast.ClassDef)]
        if not R.check(len(classes) == 1 and classes[0].name == cname and len(mod.body) == 1, "parses", "one-class",
                       lambda: "module body: %r, want one class %r" % ([type(n).__name__ + ":" + getattr(n, "name", "") for n in mod.body], cname)):
            return
        cls = classes[0]
        attrs = [n.target.id for n in cls.body if isinstance(n, ast.AnnAssign) and isinstance(n.target, ast.Name)]
        R.check(sorted(attrs) == sorted(set(expected_attrs)), "attrs", "set",
                lambda: "annotated attributes %r, fields (except methods) %r" % (sorted(attrs), sorted(expected_attrs)))
        defs = {n.name: n for n in cls.body if isinstance(n, ast.FunctionDef)}
        other = [n for n in cls.body if not isinstance(n, (ast.AnnAssign, ast.FunctionDef))]
        R.check(not other, "parses", "body", lambda: "unexpected class body statements: %r" % [ast.dump(n)[:80] for n in other])
        init = defs.get("__init__")
        if R.check(init is not None, "ctor", "missing", "no __init__ in the stub"):
            params = _ast_kinds(init)
            R.check(params[:1] == [("self", "pos")] and sorted(n for n, k in params[1:]) == sorted(persistent) and len(params) == len(persistent) + 1,
                    "ctor", "params", lambda: "__init__ parameters %r, persistent fields %r" % (params, persistent))
        R.check(sorted(k for k in defs if k != "__init__") == sorted(mkeys), "methods", "set",
                lambda: "methods in stub %r, instance methods %r" % (sorted(defs), mkeys))
        for key in mkeys:
            fn = defs.get(key)
            if fn is None:
                continue
            want = _kinds(list(inspect.signature(funcs[key]).parameters.values())[1:])
            got = _ast_kinds(fn)
            R.check(got[:1] == [("self", "pos")] and got[1:] == want, "methods", "signature",
                    lambda: "stub %s%r, function (minus first parameter) %r\nsource: %s" % (key, got, want, _source(key, case["methods"][mkeys.index(key)])))
        # a stub asked for a NESTED schema (or the sub-configuration built from it) describes that schema, not its owner
        for c in spec["children"]:
            if c["kind"] != "schema":
                continue
            want_attrs, want_ctor = [], []
            for g in c["children"]:
                if g["kind"] == "method":
                    continue
                want_attrs.append(g["key"])
                if g["kind"] != "virtual":
                    want_ctor.append(g["key"])
                if g["kind"] == "appmode" and g.get("opts", {}).get("create_helpers", True):
                    for mode in g.get("opts", {}).get("modes") or ["development", "production"]:
                        want_attrs.append("is_%s_mode" % mode)
            for form, nested in (("nested-schema", schema._fields[c["key"]]), ("nested-config", cfg[c["key"]])):
                R.label("input:" + form)
                try:
                    with contextlib.redirect_stdout(io.StringIO()):
                        nstub = cc.generate_stub(nested, class_name="NestedPart")
                    ncls = [n for n in ast.parse(nstub).body if isinstance(n, ast.ClassDef)]
                except Exception as exc:
                    R.fail("raises", form, "generate_stub(%s %s) raised %r" % (form, c["key"], exc))
                    continue
                if not R.check(len(ncls) == 1 and ncls[0].name == "NestedPart", "parses", "one-class:" + form, lambda: "classes %r" % [n.name for n in ncls]):
                    continue
                nattrs = [n.target.id for n in ncls[0].body if isinstance(n, ast.AnnAssign) and isinstance(n.target, ast.Name)]
                R.check(sorted(nattrs) == sorted(set(want_attrs)), "attrs", "set:" + form,
                        lambda: "stub of the %s %r declares %r, its fields are %r" % (form, c["key"], sorted(nattrs), sorted(want_attrs)))
                ninit = {n.name: n for n in ncls[0].body if isinstance(n, ast.FunctionDef)}.get("__init__")
                if ninit is not None:
                    nparams = _ast_kinds(ninit)
                    R.check(sorted(n for n, k in nparams[1:]) == sorted(want_ctor), "ctor", "params:" + form,
                            lambda: "stub of the %s %r: __init__ parameters %r, its persistent fields %r" % (form, c["key"], nparams, want_ctor))
            break
        # a nested schema that declares no field of its own (a free-form, dynamic section) is a field like any other
        free = cc.Schema()
        free.name = cc.StringField(default="n")
        free.extra = cc.Schema(dynamic=True)
        free.section.inner = cc.IntField(default=1)
        free.section.empty = cc.Schema()
        for form, target, kw in (("schema", free, {"class_name": "FreeForm"}), ("config", free(), {"class_name": "FreeForm"}), ("configtype", cc.make_type(free, "FreeForm", module=__name__), {})):
            try:
                with contextlib.redirect_stdout(io.StringIO()):
                    fcls = [n for n in ast.parse(cc.generate_stub(target, **kw)).body if isinstance(n, ast.ClassDef)][0]
                    scls = [n for n in ast.parse(cc.generate_stub(free._fields["section"], class_name="Sect")).body if isinstance(n, ast.ClassDef)][0]
            except Exception as exc:
                R.fail("raises", "empty-section:" + form, "generate_stub of a schema with an empty dynamic section raised %r" % (exc,))
                continue
            R.label("has:empty-nested-schema")
            for what, cls_node, want in (("root", fcls, ["extra", "name", "section"]), ("section", scls, ["empty", "inner"])):
                fattrs = sorted(n.target.id for n in cls_node.body if isinstance(n, ast.AnnAssign) and isinstance(n.target, ast.Name))
                R.check(fattrs == want, "attrs", "set:empty-section:" + form, lambda: "schema with a field-less nested schema (%s, %s): stub declares %r, its fields are %r" % (form, what, fattrs, want))
                finit = {n.name: n for n in cls_node.body if isinstance(n, ast.FunctionDef)}.get("__init__")
                if finit is not None:
                    fparams = sorted(n for n, k in _ast_kinds(finit)[1:])
                    R.check(fparams == want, "ctor", "params:empty-section:" + form, lambda: "schema with a field-less nested schema (%s, %s): __init__ takes %r, persistent fields are %r" % (form, what, fparams, want))
        # bound method still works and the stub generation did not disturb it
        for key in mkeys:
            R.check(callable(getattr(cfg, key, None)), "pure", "bound-method", "method %s no longer callable" % key)
