"""C02 — saving and re-loading a configuration reproduces it exactly, in every format."""
import math
import os

from hypothesis import strategies as st

from .. import ops, refmodel, sandbox, specs, trees, worlds

ID = "C02"
LEVEL = "exploration"
DESIGN_REF = "DESIGN.md §4 C02"
RULE = (
    "A case = (schema spec over all persistent field kinds plus virtual fields, instance methods, nested schemas, "
    "config types, lists of schemas / config types, typed lists and dicts incl. bytes / digest / secret items, "
    "dynamic schemas; a state-building history of the C01 operations; fill-in values for required fields; whether "
    "the loading side uses the same schema object or one rebuilt from the spec = a new session). The state must "
    "pass validate() (others are counted as discarded). For each of the 5 formats whose domain contains the tree "
    "(XML: XML chars without CR and name keys; BSON: 64-bit ints) and for the format options (json pretty, yaml "
    "root_key, xml root_tag): (plain) to_tree() holds only None/bool/int/float/str/list/str-keyed dict and no "
    "virtual or method key, with virtual=True exactly the virtual keys are added; (loads-ok) loading dumps() into "
    "a fresh configuration with the same key file does not raise; (equal) every persistent value is reproduced "
    "under strict typed equality (NaN-aware, digests by salt+digest, proxies as their built-in), the only "
    "permitted differences being unset typed list/dict <-> empty, '' secret <-> unset and tuple -> list in an "
    "untyped list; (idempotent) a second save/load of the loaded configuration reproduces it again. Non-trivial = "
    "a nested container AND a non-default value with a non-trivial encoding (bytes, digest, secret, list of "
    "configurations, typed dict)."
)
ASSUMPTIONS = [
    "values of AnyField / untyped list / untyped dict / dynamic fields and secrets that are not representable "
    "(non-plain data, non-string secrets) are reset to unset before saving: they are outside the quantifier",
    "the key file is named by the root configuration (other placements are C03's subject)",
]
REQUIRED = ["fmt:json", "fmt:yaml", "fmt:bson", "fmt:xml", "fmt:pickle", "session:same", "session:new", "has:secure", "has:bytes",
            "has:challenge", "has:schemalist", "has:configtype", "nondefault-encoded", "root_key:collides", "file-sweep:bson"]
LEVEL_TEXT = (
    "Generated schemas and reachable valid states saved and re-loaded through all five formats with a strict "
    "typed equality oracle; evidence on the explored states, kills mutants in to_basic/to_python of every encoded "
    "kind, in to_tree (dropped falsy values, leaked virtual fields) and in the sub-config construction during load."
)
LEVEL_NOTE = "Trusted: CPython, Hypothesis, vlib/refmodel.py (to build valid states), strict equality in this module."
TECHNIQUE = "property-based round-trip testing (Hypothesis): generated schema + state, save/load in 5 formats, strict equality oracle"


def selftest():
    refmodel.selftest()


def budget(tier):
    if tier == "quick":
        return {"cases": 450, "shards": 3}
    return {"cases": 3000, "shards": 16}


def candidates(nd):
    """Several candidate values per leaf (the first accepted one is used); containers get big candidates."""
    base = ops.value_for(nd)
    extra = []
    if nd["kind"] == "list" and nd.get("item"):
        extra.append(st.lists(specs.values(nd["item"]), min_size=3, max_size=8))
    elif nd["kind"] == "list":
        extra.append(st.lists(trees.scalar_strategy("xml"), min_size=3, max_size=8))
    elif nd["kind"] == "dict":
        vf = specs.values(nd["valuef"]) if nd.get("valuef") else trees.scalar_strategy("xml")
        kf = (specs.values(nd["keyf"]) if nd.get("keyf") else st.sampled_from(["a", "b", "c", "d", "e", "k1", "k2"])).filter(specs._hashable)
        extra.append(st.dictionaries(kf, vf, min_size=3, max_size=7))
    elif nd["kind"] == "schemalist":
        extra.append(st.lists(ops.subtree(nd, full=True), min_size=2, max_size=5))
        # constructive: every leaf of every item comes with several candidates, the first acceptable one is used
        built = st.lists(item_candidates(nd), min_size=1, max_size=4).map(lambda items: {"$items": items})
        extra.extend([built, built])
    elif nd["kind"] == "secure":
        extra.append(st.sampled_from([" padded ", "tr\u00e4iling  ", "x", "multi\nline", "s3cr3t-\u00fc"]))
        extra.append(st.sampled_from([x for x in trees.CONFUSABLE_STRINGS if x]))
    elif nd["kind"] == "str":
        # text that each format has to quote / escape / fold correctly (incl. U+0085, blank lines, look-alikes)
        extra.append(st.sampled_from(trees.CONFUSABLE_STRINGS))
        # characters that line-oriented formats treat as line breaks or must escape
        extra.append(st.sampled_from(["\x85", "a\x85b", "\x85\x85", "\u2028", "a\u2029b", "\x0b", "\x0c", "\x1c", "\x1e", "\x7f", "\ufeffx", "a\nb\n\nc", "tab\there"]))
    elif nd["kind"] == "any":
        extra.append(trees.tree_strategy("xml", 6, top_map=False))
    if not extra:
        return st.lists(base, min_size=4, max_size=4)
    # (weighted, not one_of: one_of would flatten the many branches of ``base`` and drown the extras)
    one = ops.weighted((2, base), *[(3 if nd["kind"] == "schemalist" else 1, e) for e in extra])
    return st.lists(one, min_size=4, max_size=4)


def item_candidates(node):
    """One item of a list of configurations as {leaf key: [candidate values]}, nested schemas and lists recursing."""
    fields = {}
    for c in node["children"]:
        if c["kind"] in ("virtual", "method"):
            continue
        if c["kind"] in ("schema", "configtype"):
            fields[c["key"]] = item_candidates(c)
        elif c["kind"] == "schemalist":
            fields[c["key"]] = st.lists(st.deferred(lambda c=c: item_candidates(c)), max_size=2)
        else:
            fields[c["key"]] = st.lists(specs.values(c), min_size=3, max_size=3)
    return st.fixed_dictionaries(fields) if fields else st.just({})


def build_item(node, raw, ctx):
    """Basic tree of one item from item_candidates(): per leaf the first candidate that load semantics accept with a
    non-empty result; None if a required leaf has no acceptable candidate."""
    out = {}
    for c in node["children"]:
        key = c["key"]
        if key not in raw:
            continue
        if c["kind"] in ("schema", "configtype"):
            sub = build_item(c, raw[key], ctx)
            if sub is None:
                return None
            out[key] = sub
        elif c["kind"] == "schemalist":
            out[key] = [x for x in (build_item(c, r, ctx) for r in raw[key]) if x is not None]
        else:
            for cand in raw[key]:
                value = _filter_valid(c, specs.realize(cand), ctx)
                basic = ops.basic_form(c, value, ctx)
                verdict = ops.expected_after_load(c, basic, ctx)
                if verdict[0] == refmodel.A and verdict[1] not in (None, "", [], {}, ()) and _is_plain_value(basic):
                    out[key] = basic
                    break
            else:
                if c.get("req"):
                    return None
    return out


def realize_candidate(nd, raw, ctx):
    """Candidate value for a leaf as produced by candidates()."""
    if nd["kind"] == "schemalist" and isinstance(raw, dict) and "$items" in raw:
        return [x for x in (build_item(nd, r, ctx) for r in raw["$items"]) if x is not None]
    value = specs.realize(raw)
    if nd["kind"] == "schemalist" and isinstance(value, list):
        value = specs.realize([ops.resolve_tree(nd, t, ctx, to_basic=False) if isinstance(t, dict) else t for t in value])
    return _filter_valid(nd, value, ctx)


def _augment(spec):
    """Every schema also gets the placements that matter most for the round trip: a list of configurations and a
    config type whose fields have a non-trivial on-disk form (secret, bytes, digest), next to plain ones."""
    def leaf(kind, key, **opts):
        return {"kind": kind, "key": key, "req": False, "validator": None, "opts": opts, "default": {"mode": "none"}}
    # field keys that are also names of Config attributes / methods are legal keys like any other
    item_children = [leaf("secure", "secret", method="best"), leaf("bytes", "blob", encoding="hex"), leaf("challenge", "pw", alg="sha256"),
                     leaf("int", "n"), leaf("str", "label"), leaf("str", "save"), leaf("bool", "validate")]
    extra = [
        {"kind": "schemalist", "key": "zzitems", "children": item_children, "configtype": False, "req": False},
        {"kind": "configtype", "key": "zzct", "children": [leaf("secure", "token", method="xor"), leaf("bytes", "raw", encoding="base64"), leaf("str", "full_path"), leaf("int", "load"),
                                                           {"kind": "schemalist", "key": "subs", "children": [leaf("secure", "s", method="aes"), leaf("float", "f")], "configtype": True, "req": False}]},
    ]
    # a plain nested schema whose only encoded / sensitive fields sit one level further down, in a config type and in
    # the items of a list of configurations
    extra.append({"kind": "schema", "key": "zznest", "req": False, "children": [
        leaf("int", "n"),
        {"kind": "configtype", "key": "inner", "children": [leaf("secure", "token", method="best"), leaf("str", "note")]},
        {"kind": "schemalist", "key": "rows", "children": [leaf("secure", "s", method="xor"), leaf("str", "label")], "configtype": False, "req": False},
    ]})
    keep = [c for c in spec["children"] if not c["key"].startswith("zz")]
    return dict(spec, children=keep + extra)


def strategy(tier):
    n = 6 if tier == "quick" else 15

    def hist(spec):
        leaves = ops.spec_leaves(spec)
        populate = st.fixed_dictionaries({".".join(p): candidates(nd) for p, nd in leaves}) if leaves else st.just({})
        return st.fixed_dictionaries({
            "spec": st.just(spec), "ops": st.lists(ops.single_op(spec), min_size=0, max_size=n), "populate": populate,
            "skip": st.lists(st.integers(0, 40), max_size=4), "session": st.sampled_from(["same", "new"]),
            "dyn": st.lists(st.tuples(st.integers(0, 5), st.sampled_from(["extra1", "extra2", "zz"]), trees.tree_strategy("xml", 4, top_map=False)), max_size=3),
            "opts": st.fixed_dictionaries({"pretty": st.booleans(), "root_key": st.sampled_from([None, "CONFIG", "root", "$top-level-key", "$top-level-key"]), "root_tag": st.sampled_from(["config", "cfg"])}),
        })
    return worlds.schema_spec(tier).map(_augment).flatmap(hist)


# -- helpers --------------------------------------------------------------------------------------------------


def _is_plain_value(v):
    if v is None or isinstance(v, (bool, int, float, str)):
        if isinstance(v, str):
            try:
                v.encode()
            except UnicodeEncodeError:
                return False
        return True
    if isinstance(v, list):
        return all(_is_plain_value(x) for x in v)
    if isinstance(v, dict):
        return all(isinstance(k, str) and _is_plain_value(k) and _is_plain_value(x) for k, x in v.items())
    return False


def _is_builtin_plain(v):
    """Plain data made of the built-in types themselves: a typed-list / typed-dict proxy (of another field) parked
    in an untyped slot is a caller-made alias, not representable data."""
    if isinstance(v, (list, dict)) and type(v) not in (list, dict):
        return False
    if isinstance(v, list):
        return all(_is_builtin_plain(x) for x in v)
    if isinstance(v, dict):
        return all(isinstance(k, str) and _is_plain_value(k) and _is_builtin_plain(x) for k, x in v.items())
    return _is_plain_value(v)


def _is_plain_or_bytes(v):
    """Assignable test values: plain data, with bytes allowed (bytes fields)."""
    if isinstance(v, bytes):
        return True
    if isinstance(v, (list, tuple)) and not hasattr(v, "_fields"):
        return all(_is_plain_or_bytes(x) for x in v)
    if isinstance(v, dict):
        return all(_is_plain_or_bytes(k) and _is_plain_or_bytes(x) for k, x in v.items())
    return _is_plain_value(v)


UNSANITIZED = []


def _sanitize(world, cfg, node=None):
    """Reset values that are outside the quantifier (not representable at all)."""
    cc = world.cc
    node = node or world.spec
    for child in node["children"]:
        key, kind = child["key"], child["kind"]
        if kind in ("virtual", "method"):
            continue
        value = cfg[key]
        if kind in ("schema", "configtype"):
            if isinstance(value, cc.Config):
                _sanitize(world, value, child)
            continue
        if kind == "schemalist":
            for item in value or []:
                if isinstance(item, cc.Config):
                    try:
                        _sanitize(world, item, child)
                    except AttributeError:
                        # a configuration of ANOTHER schema sits in this list (any Config object is accepted for such a
                        # slot): caller-made, outside the quantifier
                        UNSANITIZED.append(key)
            continue
        bad = False
        if kind == "secure":
            bad = value is not None and not (isinstance(value, str) and _is_plain_value(value))
        elif kind == "any":
            bad = not _is_builtin_plain(value)
        elif kind == "list":
            item = child.get("item")
            if item is None or item["kind"] == "any":
                # an untyped list keeps a tuple in memory and saves it as a list; anything nested must be plain
                bad = value is not None and not all(_is_builtin_plain(x) for x in value)
            elif item["kind"] == "secure":
                bad = value is not None and not all(isinstance(x, str) and x and _is_plain_value(x) for x in value)
        elif kind == "dict":
            kf, vf = child.get("keyf"), child.get("valuef")
            if value is not None:
                if not all(isinstance(k, str) and _is_plain_value(k) for k in value):
                    bad = True
                elif vf is None or vf["kind"] == "any":
                    bad = not all(_is_builtin_plain(x) for x in value.values())
                elif vf["kind"] == "secure":
                    bad = not all(isinstance(x, str) and x and _is_plain_value(x) for x in value.values())
        if bad:
            for repl in (None, ["s3cret"] if kind == "list" else {"k": "s3cret"} if kind == "dict" else "s3cret", [], {}):
                try:
                    setattr(cfg, key, repl)
                    break
                except Exception:
                    continue
            else:
                UNSANITIZED.append(key)  # no replacement is acceptable to this field: the state stays out of domain
    for key in list(cfg._fields):  # dynamic extras
        if not _is_builtin_plain(cfg._data.get(key)):
            cfg._data[key] = None


def _eq_leaf(node, a, b):
    kind = node["kind"]
    if kind == "secure":
        return a == b or {a, b} <= {None, ""} if not isinstance(a, (list, dict)) and not isinstance(b, (list, dict)) else a == b
    if kind == "list":
        item = node.get("item")
        if a is None or b is None:
            return (a is None and b is None) or (item is not None and item["kind"] != "any" and not (a or b))
        if len(a) != len(b):
            return False
        if item is None or item["kind"] == "any":
            return trees.tree_eq(_listify(a), _listify(b))
        return all(_eq_leaf(item, x, y) for x, y in zip(a, b))
    if kind == "dict":
        kf, vf = node.get("keyf"), node.get("valuef")
        typed = kf or vf
        if a is None or b is None:
            return (a is None and b is None) or (bool(typed) and not (a or b))
        if set(a) != set(b):
            return False
        if not typed or vf is None:
            return trees.tree_eq(_listify(dict(a)), _listify(dict(b)))
        return all(_eq_leaf(vf, a[k], b[k]) for k in a)
    if kind == "challenge":
        if a is None or b is None:
            return a is None and b is None
        return a.salt == b.salt and a.digest == b.digest
    if kind == "any":
        return trees.tree_eq(_listify(a), _listify(b))
    if isinstance(a, float) and isinstance(b, float):
        return trees.tree_eq(a, b)
    return type(a) is type(b) and a == b


def _listify(v):
    if isinstance(v, (list, tuple)):
        return [_listify(x) for x in v]
    if isinstance(v, dict):
        return {k: _listify(x) for k, x in v.items()}
    return v


def compare(world, a, b, R, site, node=None, path=()):
    cc = world.cc
    node = node or world.spec
    for child in node["children"]:
        key, kind = child["key"], child["kind"]
        if kind in ("virtual", "method"):
            continue
        cpath = path + (key,)
        va, vb = a[key], b[key]  # item access: a key may be the name of a Config method
        if kind in ("schema", "configtype"):
            if R.check(isinstance(vb, cc.Config), "equal", site + ":subconfig", "%s is %r after reload" % (".".join(cpath), vb)):
                compare(world, va, vb, R, site, child, cpath)
            continue
        if kind == "schemalist":
            la, lb = va or [], vb or []
            if R.check(len(la) == len(lb) and all(isinstance(x, cc.Config) for x in lb), "equal", site + ":schemalist",
                       lambda: "%s has %d items, after reload %r" % (".".join(cpath), len(la), vb)):
                for i, (x, y) in enumerate(zip(la, lb)):
                    compare(world, x, y, R, site, child, cpath + ("[%d]" % i,))
            continue
        sub = (child.get("item") or child.get("valuef") or {}).get("kind", "") if kind in ("list", "dict") else ""
        R.check(_eq_leaf(child, va, vb), "equal", "%s:%s%s" % (site, kind, ":" + sub if sub else ""),
                lambda: "%s (%s%s) was %r, after save+load %r" % (".".join(cpath), kind, "/" + sub if sub else "", va, vb))
    extras_a = {k: a._data.get(k) for k in a._fields}
    extras_b = {k: b._data.get(k) for k in b._fields}
    if extras_a or extras_b:
        R.check(trees.tree_eq(_listify(extras_a), _listify(extras_b)), "equal", site + ":dynamic",
                lambda: "dynamic fields %r, after reload %r" % (extras_a, extras_b))


def _tree_plain(world, tree, R, site, node=None, path=(), virtual=False):
    """(plain) clause: structure and key set of to_tree()."""
    node = node or world.spec
    if not R.check(isinstance(tree, dict), "plain", site + ":map", "%s renders as %r" % (".".join(path) or "<root>", tree)):
        return
    by_key = {c["key"]: c for c in node["children"]}
    helper_keys = set()
    for c in node["children"]:
        if c["kind"] == "appmode" and c.get("opts", {}).get("create_helpers", True):
            helper_keys |= {"is_%s_mode" % m for m in (c.get("opts", {}).get("modes") or ["development", "production"])}
    for key, val in tree.items():
        child = by_key.get(key)
        cpath = path + (key,)
        if child is None:
            if key in helper_keys:
                R.check(virtual, "plain", site + ":virtual-leak", "virtual helper field %s in the tree" % ".".join(cpath))
            else:
                R.check(node.get("dynamic") and _is_plain_value(val), "plain", site + ":unknown-key", "unexpected key %s = %r" % (".".join(cpath), val))
            continue
        kind = child["kind"]
        if kind == "method":
            R.fail("plain", site + ":method-leak", "instance method %s in the tree" % ".".join(cpath))
        elif kind == "virtual":
            R.check(virtual, "plain", site + ":virtual-leak", "virtual field %s in the tree although virtual output was not asked for" % ".".join(cpath))
        elif kind in ("schema", "configtype"):
            _tree_plain(world, val, R, site, child, cpath, virtual)
        elif kind == "schemalist":
            if val is not None and R.check(isinstance(val, list), "plain", site + ":schemalist", "%s renders as %r" % (".".join(cpath), val)):
                for i, item in enumerate(val):
                    _tree_plain(world, item, R, site, child, cpath + ("[%d]" % i,), virtual)
        else:
            R.check(_is_plain_value(val) and not _has_tuple(val), "plain", "%s:%s" % (site, kind), lambda: "%s (%s) renders as non-plain %r" % (".".join(cpath), kind, val))
    persistent = {c["key"] for c in node["children"] if c["kind"] not in ("virtual", "method")}
    R.check(persistent <= set(tree), "plain", site + ":missing-key", lambda: "tree lacks persistent keys %r" % sorted(persistent - set(tree)))


def _has_tuple(v):
    if isinstance(v, tuple):
        return True
    if isinstance(v, list):
        return any(_has_tuple(x) for x in v)
    if isinstance(v, dict):
        return any(_has_tuple(x) for x in v.values())
    return False


def _encoded_nondefault(world, cfg, node=None):
    cc = world.cc
    node = node or world.spec
    nested = False
    enc = False
    for child in node["children"]:
        kind = child["kind"]
        if kind in ("virtual", "method"):
            continue
        v = cfg[child["key"]]
        if kind in ("schema", "configtype"):
            nested = True
            n2, e2 = _encoded_nondefault(world, v, child) if isinstance(v, cc.Config) else (False, False)
            enc = enc or e2
        elif kind == "schemalist":
            nested = True
            enc = enc or bool(v)
        elif kind in ("bytes", "challenge", "secure"):
            enc = enc or (v not in (None, "", b"") and cc.is_value_defined(cfg, child["key"]))
        elif kind in ("list", "dict") and (child.get("item") or child.get("valuef") or child.get("keyf")):
            nested = True
            enc = enc or bool(v)
    return nested, enc


def _labels(spec, R):
    def walk(node):
        for c in node["children"]:
            k = c["kind"]
            if k in ("secure", "bytes", "challenge", "schemalist", "configtype"):
                R.label("has:" + k)
            if k in ("list", "dict"):
                sub = (c.get("item") or c.get("valuef") or {}).get("kind")
                if sub in ("secure", "bytes", "challenge"):
                    R.label("has:" + sub)
            if k in ("schema", "configtype", "schemalist"):
                walk(c)
    walk(spec)


def exhaustive(tier):
    """The same round trip through FILES (save(filename) / load(filename)) over a sweep of document sizes: formats with a
    length prefix or significant leading / trailing bytes make the first and last bytes of the file vary with the size."""
    top = 600 if tier == "quick" else 1400
    for fmt in trees.FORMATS:
        step = 1 if fmt == "bson" or tier != "quick" else 7
        for n in range(0, top, step):
            yield {"mode": "file-sweep", "fmt": fmt, "n": n}
    for fmt in trees.FORMATS:
        for kk in ("str", "str-lower", "int", "port", "bytes-b64", "bytes-hex"):
            for vk in ("str", "int", "bytes-hex", "bytes-b64", "secure", "challenge", "bool", "float"):
                for place in ("root", "nested", "list-item"):
                    if tier == "quick" and place != "root" and (kk in ("str-lower", "port") or vk in ("bool", "float", "str")):
                        continue
                    yield {"mode": "typed-container", "fmt": fmt, "key": kk, "value": vk, "place": place}


def _typed_container_case(case, R):
    """Typed dicts and lists over every pairing of key / value / item fields whose on-disk form differs from the value held
    (bytes in both encodings, secrets, digests, numbers from text, transformed strings), root / nested / list item, per format."""
    cc = sandbox._state["cc"]
    fmt, kk, vk, place = case["fmt"], case["key"], case["value"], case["place"]
    R.label("typed-container:" + fmt, "typed-container-key:" + kk)
    R.nontrivial = kk.startswith("bytes") or vk in ("bytes-hex", "bytes-b64", "secure", "challenge")
    fields = {"str": lambda: cc.StringField(), "str-lower": lambda: cc.StringField(transform_case="lower"), "int": lambda: cc.IntField(), "port": lambda: cc.PortField(),
              "bytes-b64": lambda: cc.BytesField(encoding="base64"), "bytes-hex": lambda: cc.BytesField(encoding="hex"), "secure": lambda: cc.SecureField(method="xor"),
              "challenge": lambda: cc.ChallengeField("sha256"), "bool": lambda: cc.BoolField(), "float": lambda: cc.FloatField()}
    keys = {"str": ["a", "Key"], "str-lower": ["a", "key"], "int": [1, 20], "port": [80, 443], "bytes-b64": [b"abc", b"\x00\xff"], "bytes-hex": [b"\xde\xad", b"abc"]}[kk]
    vals = {"str": ["x", "y"], "int": [1, 2], "bytes-hex": [b"\xca\xfe", b""], "bytes-b64": [b"v1", b"\xff"], "secure": ["s1", "secret-two"], "challenge": ["p1", "p2"],
            "bool": [True, False], "float": [1.5, 2.0]}[vk]
    schema = cc.Schema()
    holder = cc.Schema()
    holder.table = cc.DictField(fields[kk](), fields[vk]())
    holder.seq = cc.ListField(fields[vk]())
    holder.tag = cc.StringField(default="t")
    if place == "root":
        schema = holder
        owner = lambda c: c
    elif place == "nested":
        schema.a.b = holder
        owner = lambda c: c.a.b
    else:
        schema.rows = cc.ListField(holder)
        owner = lambda c: c.rows[0]
    with sandbox.CaseDir() as d:
        cfg = schema(key_filename=os.path.join(d, "key"))
        if place == "list-item":
            cfg.rows = [{}]
        try:
            owner(cfg).table = dict(zip(keys, vals))
            owner(cfg).seq = list(vals)
        except Exception as exc:
            R.fail("crash", "typed-container:fill", "filling a typed dict(%s -> %s) raised %r" % (kk, vk, exc))
            return

        def view(c):
            def plain(v):
                return ("digest", v.salt, v.digest) if type(v).__name__ == "DigestValue" else (type(v).__name__, v)
            return ({(type(k).__name__, k): plain(v) for k, v in owner(c).table.items()}, [plain(v) for v in owner(c).seq])
        want = view(cfg)
        dest = os.path.join(d, "typed." + fmt)
        try:
            cfg.save(dest, fmt)
        except Exception:
            R.label("typed-container:save-refused")  # (e.g. keys this format cannot carry: not a re-load matter)
            return
        try:
            fresh = schema(key_filename=os.path.join(d, "key"))
            fresh.load(dest, fmt)
            got, err = view(fresh), None
        except Exception as exc:
            got, err = None, exc
        R.check(got == want, "equal", "typed-container:%s->%s" % (kk, vk),
                lambda: "dict(%s -> %s) and list(%s) (%s) saved as %s: re-loaded as %r, was %r (%r)" % (kk, vk, vk, place, fmt, got, want, err))


def _file_sweep(case, R):
    cc = sandbox._state["cc"]
    fmt, n = case["fmt"], case["n"]
    R.label("file-sweep:" + fmt)
    with sandbox.CaseDir() as d:
        schema = cc.Schema()
        schema.text = cc.StringField()
        schema.tail = cc.StringField()
        schema.n = cc.IntField()
        cfg = schema(key_filename=os.path.join(d, "key"))
        cfg.text = "x" * n
        cfg.tail = " " * (n % 5)  # (values that end in / consist of white space are values like any other)
        cfg.n = n
        dest = os.path.join(d, "sweep." + fmt)
        try:
            cfg.save(dest, fmt)
            fresh = schema(key_filename=os.path.join(d, "key"))
            fresh.load(dest, fmt)
            ok = fresh.text == cfg.text and fresh.n == n and fresh.tail == cfg.tail
            err = None
        except Exception as exc:
            ok, err = False, exc
        R.check(ok, "equal", "file-sweep:" + fmt, lambda: "a %s file of a configuration holding a %d-character string does not load back equal through save()/load() (%r)" % (fmt, n, err))


def run_case(case, R):
    if case.get("mode") == "typed-container":
        return _typed_container_case(case, R)
    if case.get("mode") == "file-sweep":
        return _file_sweep(case, R)
    cc = sandbox._state["cc"]
    spec = case["spec"]
    _labels(spec, R)
    with sandbox.CaseDir() as d:
        world = worlds.World(cc, spec)
        keyfile = os.path.join(d, "key")
        state = {"cfg": world.schema(key_filename=keyfile), "keyfile": keyfile}
        for op in case["ops"]:
            if op["op"] in ("ctor",):
                continue
            ops.apply_op(world, state, op)
        cfg = state["cfg"]
        _sanitize(world, cfg)
        # populate: every leaf (except a few skipped ones) gets the first candidate its field accepts
        leaves = ops.spec_leaves(spec)
        skip = {i % max(len(leaves), 1) for i in case["skip"]}
        for i, (path, nd) in enumerate(leaves):
            if i in skip and not nd.get("req"):
                continue
            for raw in case["populate"].get(".".join(path), []):
                value = realize_candidate(nd, raw, world.ctx)
                if _emptied(nd, value, raw, case["populate"].get(".".join(path), [])):
                    continue
                try:
                    ops.set_via(cfg, path, value, "setattr")
                    break
                except Exception:
                    continue
        dyn = [p for p, n in [((), spec)] + ops.spec_containers(spec) if n.get("dynamic")]
        for idx, key, value in case.get("dyn", []):
            if dyn:
                try:
                    setattr(worlds.get_path(cfg, dyn[idx % len(dyn)]), key, value)
                    R.label("dynamic-field")
                except Exception:
                    pass
        del UNSANITIZED[:]
        _sanitize(world, cfg)
        if UNSANITIZED:
            R.label("discarded:unrepresentable-value")
            return
        errors = cfg.validate(collect_errors=True)
        if errors:
            R.label("discarded:invalid-state")
            return
        R.label("valid-state")
        d14 = _required_unset(world, cfg)
        if d14:
            R.label("valid-only-because-disabled")

        # ---- plain -------------------------------------------------------------------------------------------------
        try:
            tree = cfg.to_tree()
            vtree = cfg.to_tree(virtual=True)
        except Exception as exc:
            R.fail("to_tree-raises", "", "to_tree of a valid state raised %r" % (exc,))
            return
        _tree_plain(world, tree, R, "to_tree")
        _tree_plain(world, vtree, R, "to_tree-virtual", virtual=True)
        nested, enc = _encoded_nondefault(world, cfg)
        if enc:
            R.label("nondefault-encoded")
        if nested and enc:
            R.nontrivial = True

        # ---- per format ---------------------------------------------------------------------------------------------
        session = case["session"]
        R.label("session:" + session)
        load_world = world if session == "same" else worlds.World(cc, spec)
        for fmt in trees.FORMATS:
            if not ops.is_plain(tree, fmt):
                R.label("out-of-domain:" + fmt)
                continue
            R.label("fmt:" + fmt)
            opts = {}
            if fmt == "json":
                opts = {"pretty": case["opts"]["pretty"]}
            elif fmt == "yaml" and case["opts"]["root_key"]:
                rk = case["opts"]["root_key"]
                if rk == "$top-level-key":  # the option's value is spelled like one of the configuration's own top-level keys
                    rk = next(c["key"] for c in spec["children"] if c["kind"] not in ("virtual", "method"))
                    R.label("root_key:collides")
                opts = {"root_key": rk}
            elif fmt == "xml":
                opts = {"root_tag": case["opts"]["root_tag"]}
            try:
                doc = cfg.dumps(fmt, **opts)
            except Exception as exc:
                R.fail("dumps-raises", fmt, "dumps(%s) of a valid in-domain state raised %r" % (fmt, exc))
                continue
            fresh = load_world.schema(key_filename=keyfile)
            try:
                fresh.loads(doc, fmt, **opts)
            except Exception as exc:
                site = _culprit(exc, cc)
                if d14 and "value is required" in str(getattr(exc, "exc", "")):
                    site = "disabled-required-unset"  # one call-site class: required enforced at load regardless of feature flags
                R.fail("loads-ok", site, "loading the %s document this configuration just saved raised %r" % (fmt, exc))
                continue
            compare(world, cfg, fresh, R, "reload")
            # second generation
            try:
                again = load_world.schema(key_filename=keyfile)
                again.loads(fresh.dumps(fmt, **opts), fmt, **opts)
            except Exception as exc:
                R.fail("idempotent", fmt + ":raises", "second save/load raised %r" % (exc,))
                continue
            compare(world, fresh, again, R, "second-generation")


def _emptied(nd, value, raw, candidates):
    """A container candidate that the filter emptied is passed over while later candidates remain: otherwise most
    lists of configurations / typed containers would end up empty."""
    return nd["kind"] in ("schemalist", "list", "dict") and isinstance(value, (list, dict)) and not value and raw is not candidates[-1]


def _filter_valid(nd, value, ctx):
    """Drop the items/entries of a container candidate that the reference validator rejects."""
    A = refmodel.A
    kind = nd["kind"]
    if kind == "list" and nd.get("item") and isinstance(value, (list, tuple)):
        return [x for x in value if refmodel.ref(nd["item"], x, ctx)[0] == A]
    if kind == "dict" and (nd.get("keyf") or nd.get("valuef")) and isinstance(value, dict):
        kf, vf = nd.get("keyf") or {"kind": "any"}, nd.get("valuef") or {"kind": "any"}
        # pair every acceptable key with an acceptable value (round robin), so that large valid dicts are common
        ks = [k for k in value if refmodel.ref(kf, k, ctx)[0] == A]
        vs = [v for v in value.values() if refmodel.ref(vf, v, ctx)[0] == A]
        return {k: vs[i % len(vs)] for i, k in enumerate(ks)} if vs else {}
    if kind == "schemalist" and isinstance(value, list):
        out = []
        for tree in value:
            item = _filter_tree(nd, tree, ctx)
            if item is not None:
                out.append(item)
        return out
    return value


def _filter_tree(node, tree, ctx):
    if not isinstance(tree, dict):
        return None
    out = {}
    for child in node["children"]:
        key = child["key"]
        if key not in tree:
            if child.get("req") and child["kind"] not in ("schema", "configtype"):
                return None
            continue
        val = tree[key]
        if child["kind"] in ("schema", "configtype"):
            sub = _filter_tree(child, val, ctx)
            if sub is None:
                return None
            out[key] = sub
        elif child["kind"] in ("virtual", "method"):
            continue
        elif child["kind"] == "schemalist":
            out[key] = _filter_valid(child, val, ctx)
        else:
            val = _filter_valid(child, val, ctx)
            if refmodel.ref(child, val, ctx)[0] == refmodel.A:
                out[key] = val
            elif child.get("req"):
                return None
    return out


def populate(world, cfg, case):
    """Give every leaf (except a few skipped ones) the first candidate value its field accepts."""
    spec = world.spec
    leaves = ops.spec_leaves(spec)
    skip = {i % max(len(leaves), 1) for i in case.get("skip", [])}
    for i, (path, nd) in enumerate(leaves):
        if i in skip and not nd.get("req"):
            continue
        for raw in case["populate"].get(".".join(path), []):
            value = realize_candidate(nd, raw, world.ctx)
            if _emptied(nd, value, raw, case["populate"].get(".".join(path), [])):
                continue
            try:
                ops.set_via(cfg, path, value, "setattr")
                break
            except Exception:
                continue
    _sanitize(world, cfg)


def _required_unset(world, cfg, node=None):
    """Is some required field unset/empty? (then the state validates only because an enclosing feature is off)"""
    cc = world.cc
    node = node or world.spec
    for child in node["children"]:
        kind = child["kind"]
        if kind in ("virtual", "method"):
            continue
        v = cfg[child["key"]]
        if kind in ("schema", "configtype"):
            if isinstance(v, cc.Config) and _required_unset(world, v, child):
                return True
        elif kind == "schemalist":
            if any(isinstance(x, cc.Config) and _required_unset(world, x, child) for x in (v or [])):
                return True
        elif child.get("req") and (v is None or (kind in refmodel.STRING_KINDS + ("list", "dict") and not v)):
            return True
    return False


def _culprit(exc, cc):
    """A narrow call-site discriminator for load failures: the kind of field named by the error."""
    field = getattr(exc, "field", None)
    name = type(field).__name__ if field is not None else type(exc).__name__
    inner = getattr(exc, "exc", None)
    if isinstance(inner, Exception):
        name += ":" + type(inner).__name__
    return name
