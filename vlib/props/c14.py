"""C14 — environment variables beat files, assignment beats both, names are predictable."""
import itertools
import os

from hypothesis import strategies as st

from .. import ops, refmodel, sandbox, specs, trees
from ..refmodel import A, REJ, U

ID = "C14"
LEVEL = "exploration"
DESIGN_REF = "DESIGN.md §4 C14"
RULE = (
    "The naming matrix is finite and enumerated exhaustively: schema env in {absent, True, named, False} at each "
    "of 1..3 levels x field env in {absent, True, named, False} x variable state in {unset, empty, valid, "
    "invalid} (1344 combinations, schemas built top-down). On top, generated cases vary the field kind (every "
    "scalar kind plus list, dict, challenge with/without default), the variable's text (valid / boundary / invalid "
    "strings for that kind) and a history of tree loads, document loads in a random format (carrying different "
    "values), explicit assignments and constructor keywords. Oracle: the resolved variable name equals a "
    "reference naming function written from the docs (upper-cased underscore-joined path below the nearest "
    "prefix; True = empty prefix; named = that prefix; False = off; a field's own string wins); with a non-empty "
    "valid variable the field reads as the reference normal form of the variable after construction and after "
    "every later load; an assignment or constructor keyword replaces it; an invalid variable makes construction "
    "raise ValidationError whose reference path is the field's dotted path; with the variable unset/empty or the "
    "field opted out the configuration behaves exactly like one built from the same schema without any env "
    "settings (twin differential over the same history). The interpreter owns os.environ (names start with CCV) "
    "and restores it after each case. Non-trivial = depth >= 2 with a prefix change on the way and a load after build."
)
ASSUMPTIONS = [
    "reference naming function in this module (docs of Field 'Environment Variables')",
    "environment variable names are derived from keys that start with 'ccv', so no real process variable is read",
]
REQUIRED = ["var:unset", "var:empty", "var:valid", "var:invalid", "bound", "unbound", "op:load_tree", "op:loads", "op:assign",
            "op:ctor", "depth:1", "depth:2", "depth:3", "decl:chain", "decl:item", "later-build"]
LEVEL_TEXT = (
    "Exhaustive enumeration of the finite naming matrix plus generated kinds/values/histories against a reference "
    "naming function, a reference validator and a no-env twin; kills mutants in prefix joining, opt-out handling "
    "and the load-time skip."
)
LEVEL_NOTE = "Trusted: CPython os.environ, Hypothesis, vlib/refmodel.py, the reference naming function."
TECHNIQUE = "exhaustive enumeration of the naming matrix + property-based differential testing (Hypothesis) of env/file/assignment precedence"
EXHAUSTIVE_NOTE = "schema env {None, True, 'CCVAPP', False}^(1..3 levels) x field env {None, True, 'CCV_NAMED', False} x variable {unset, empty, valid, invalid} for an IntField: 1344 cases, complete"

SCHEMA_ENVS = [None, True, "CCVAPP", False]
FIELD_ENVS = [None, True, "CCV_NAMED", False]
KEYS = ["ccvroot", "ccvdb", "ccvnet"]
FKEY = "ccvval"
KINDS = ["str", "int", "float", "port", "bool", "ipv4", "ipv4net", "host", "url", "bytes", "loglevel", "secure", "challenge", "list", "dict"]


def selftest():
    refmodel.selftest()
    assert ref_prefix(None, True, "x") == "" and ref_prefix("", None, "db") == "DB" and ref_prefix("A", None, "db") == "A_DB"
    assert ref_name("", None, "host") == "HOST" and ref_name("A_DB", None, "host") == "A_DB_HOST" and ref_name(None, None, "h") is None
    assert ref_name(False, True, "h") == "H" and ref_name("X", False, "h") is None and ref_name(None, "N", "h") == "N"


def budget(tier):
    if tier == "quick":
        return {"cases": 600, "shards": 2}
    return {"cases": 5000, "shards": 16}


def ref_prefix(parent_prefix, env, key):
    """Reference: environment prefix of a schema. None = none, False = disabled, str = prefix."""
    if env is True:
        return ""
    if env is False:
        return False
    if isinstance(env, str):
        return env
    if isinstance(parent_prefix, str):
        return (parent_prefix + "_" if parent_prefix else "") + key.upper()
    return None


def ref_name(prefix, env, key):
    """Reference: variable a field is bound to (None = not bound)."""
    if env is False:
        return None
    if isinstance(env, str) and env:
        return env
    if env is True or isinstance(prefix, str):
        p = prefix if isinstance(prefix, str) else ""
        return (p + "_" if p else "") + key.upper()
    return None


def _field_node(kinds=None):
    def fin(sp):
        extra = {}
        if sp["kind"] == "challenge":
            extra["default"] = st.sampled_from([{"mode": "none"}, {"mode": "const", "value": "dflt-secret"}])
        elif sp["kind"] in ("list", "dict"):
            extra["default"] = st.sampled_from([{"mode": "none"}, {"mode": "const", "value": [] if sp["kind"] == "list" else {}}])
        else:
            extra["default"] = st.just({"mode": "none"})
        return st.fixed_dictionaries(extra).map(lambda e: dict(sp, req=False, validator=None, **e))
    return specs.leaf_spec(kinds or KINDS, depth=1, required=False).flatmap(fin)


def strategy(tier):
    def build(node):
        sv = st.one_of(specs.values(node), specs.values(node), specs.values(node), st.none())  # (an explicit null in a document, too)
        strings = specs.values(node).filter(lambda v: isinstance(v, str) and "\x00" not in v and _encodable(v))
        var = st.one_of(st.just(None), st.just(""), strings, strings, strings)
        op = st.one_of(
            st.fixed_dictionaries({"op": st.just("load_tree"), "value": sv, "with_sibling": st.booleans()}),
            st.fixed_dictionaries({"op": st.just("loads"), "fmt": st.sampled_from(trees.FORMATS), "value": sv, "with_sibling": st.booleans()}),
            st.fixed_dictionaries({"op": st.just("assign"), "value": sv, "how": st.sampled_from(["setattr", "setitem"])}),
            st.fixed_dictionaries({"op": st.just("ctor"), "value": sv}),
        )
        return st.fixed_dictionaries({
            "levels": st.lists(st.sampled_from(SCHEMA_ENVS), min_size=1, max_size=3), "fenv": st.sampled_from(FIELD_ENVS),
            "node": st.just(node), "var": var, "var2": var, "sibling_var": st.none(),
            "decl": st.sampled_from(["explicit", "explicit", "chain", "item"]),
            "fname": st.sampled_from([None, None, "Listen Port", "db-host (primary)"]),
            "ops": st.lists(op, min_size=1, max_size=6),
        })
    return _field_node().flatmap(build)


def _encodable(s):
    try:
        s.encode()
        return True
    except UnicodeEncodeError:
        return False


def exhaustive(tier):
    node = {"kind": "int", "req": False, "validator": None, "opts": {"min": 0, "max": 100}, "default": {"mode": "none"}}
    # a field whose own validator rejects the variable's value - with an exception type of its own choosing
    odd = {"kind": "int", "req": False, "validator": "v_not7", "opts": {}, "default": {"mode": "none"}}
    for levels in ([True], [True, None], ["CCVAPP", None, None]):
        for fenv in (None, True, "CCV_NAMED"):
            for var in ("7", "8"):
                yield {"levels": list(levels), "fenv": fenv, "node": odd, "var": var, "var2": "7" if var == "8" else "9", "sibling_var": None, "decl": "explicit",
                       "ops": [{"op": "load_tree", "value": 3, "with_sibling": True}]}
    # every scalar field kind (and every on-disk encoding it has) x variable texts that look like that kind's on-disk form,
    # like a value of another kind, or like nothing at all: the field's value is the VALIDATED text, never a decoded one
    texts = ["cafe", "hello", "aGVsbG8=", "00ff", "42", "4.5", "true", "no", "10.0.0.1", "10.0.0.0/8", "host.example", "http://h.example/p", "debug", " padded ", "zz=="]
    leaf = lambda kind, **opts: {"kind": kind, "req": False, "validator": None, "opts": opts, "default": {"mode": "none"}}
    nodes = [leaf("bytes", encoding="hex"), leaf("bytes", encoding="base64"), leaf("str"), leaf("str", transform_case="upper", transform_strip=True), leaf("int"), leaf("float"),
             leaf("port"), leaf("bool"), leaf("ipv4"), leaf("ipv4net"), leaf("host"), leaf("url"), leaf("loglevel"), leaf("secure", method="xor"), leaf("challenge", alg="sha256")]
    for nd in nodes:
        for text in texts:
            for levels, fenv in (([True], None), ([None, True], None), ([None], "CCV_NAMED")):
                yield {"levels": list(levels), "fenv": fenv, "node": nd, "var": text, "var2": texts[(texts.index(text) + 1) % len(texts)], "sibling_var": None, "decl": "explicit",
                       "ops": [{"op": "load_tree", "value": None, "with_sibling": True}]}
    # schema prefixes that end in or contain underscores: the variable is PREFIX + "_" + KEY all the same
    for levels in (["CCVU_"], ["CCVU_", None], [True, "CCVU_"], ["CCVU_", "CCVW__"], [None, "CCVU_", None], ["CCV_MID_DLE", None]):
        for fenv in FIELD_ENVS:
            for var in (None, "42", "1000"):
                yield {"levels": list(levels), "fenv": fenv, "node": node, "var": var, "var2": "43", "sibling_var": None, "decl": "explicit",
                       "ops": [{"op": "load_tree", "value": 7, "with_sibling": True}, {"op": "assign", "value": 9, "how": "setattr"}]}
    for depth in (1, 2, 3):
        for levels in itertools.product(SCHEMA_ENVS, repeat=depth):
            for fenv in FIELD_ENVS:
                for var in (None, "", "42", "1000"):
                    decls = ("explicit", "chain", "item") if depth > 1 and all(env is None for env in levels[1:]) else ("explicit",)
                    for decl in decls:
                        if decl == "explicit" and var in ("42", None):
                            yield {"levels": list(levels), "fenv": fenv, "node": node, "var": var, "var2": "43", "sibling_var": None, "decl": decl, "fname": "Listen Port",
                                   "ops": [{"op": "load_tree", "value": 7, "with_sibling": True}]}
                        yield {"levels": list(levels), "fenv": fenv, "node": node, "var": var, "var2": {None: "17", "": "1000", "42": "43", "1000": "5"}[var], "sibling_var": None, "decl": decl,
                               "ops": [{"op": "load_tree", "value": 7, "with_sibling": True}, {"op": "load_tree", "value": None, "with_sibling": True},
                                       {"op": "loads", "fmt": "yaml", "value": None, "with_sibling": False},
                                       {"op": "assign", "value": 9, "how": "setattr"}, {"op": "loads", "fmt": "json", "value": 11}]}


def _build(cc, case, with_env):
    """Build the schema top-down. Returns (root schema, path of the target field, field object)."""
    levels = case["levels"]
    node = case["node"]
    root = cc.Schema(env=levels[0] if with_env else None)
    schema = root
    path = []
    decl = case.get("decl", "explicit")
    if decl != "explicit" and any(env is not None for env in levels[1:]):
        decl = "explicit"  # intermediate schemas that are created implicitly cannot carry an env option of their own
    for i, env in enumerate(levels[1:]):
        key = KEYS[i + 1]
        if decl == "explicit":
            sub = cc.Schema(env=env if with_env else None)
            setattr(schema, key, sub)  # attach first (top-down), then descend
            schema = sub
        path.append(key)
    kw = {}
    d = node.get("default") or {"mode": "none"}
    if d["mode"] != "none":
        kw["default"] = specs.realize(d["value"])
    if with_env:
        kw["env"] = case["fenv"]
    if case.get("fname"):
        kw["name"] = case["fname"]  # the descriptive name of the field (plays no part in naming the variable)
    field = specs.build_field(cc, node, **kw)
    sibling = cc.IntField(default=5)
    if decl == "chain" and path:
        # root.k1.k2.field = ...: the intermediate schemas come into being through attribute access
        for key in path:
            schema = getattr(schema, key)
        setattr(schema, FKEY, field)
        setattr(schema, "ccvsib", sibling)
    elif decl == "item" and path:
        # root["k1.k2.field"] = ...: the intermediate schemas come into being inside the dotted-path assignment
        root[".".join(path + [FKEY])] = field
        root[".".join(path + ["ccvsib"])] = sibling
    else:
        setattr(schema, FKEY, field)
        setattr(schema, "ccvsib", sibling)
    return root, tuple(path) + (FKEY,), field, sibling


def _nest(path, value):
    tree = value
    for key in reversed(path):
        tree = {key: tree}
    return tree


def _get(cfg, path):
    for key in path:
        cfg = getattr(cfg, key)
    return cfg


def run_case(case, R):
    cc = sandbox._state["cc"]
    node = case["node"]
    kind = node["kind"]
    ctx = specs.ref_ctx()
    levels = case["levels"]
    depth = len(levels)
    R.label("depth:%d" % depth, "kind:" + kind, "decl:" + (case.get("decl", "explicit") if depth > 1 and all(e is None for e in levels[1:]) else "explicit"))
    saved = {k: v for k, v in os.environ.items() if k.startswith("CCV")}
    for k in saved:
        del os.environ[k]
    try:
        with sandbox.CaseDir() as d:
            keyfile = os.path.join(d, "key")
            root, path, field, sibling = _build(cc, case, True)
            twin_root, _, twin_field, _ = _build(cc, case, False)
            dotted = ".".join(path)

            # ---- (a) name --------------------------------------------------------------------------------------
            prefix = ref_prefix(None, levels[0], "")
            for i, env in enumerate(levels[1:]):
                prefix = ref_prefix(prefix, env, KEYS[i + 1])
            want = ref_name(prefix, case["fenv"], FKEY)
            got = field.env if isinstance(field.env, str) and field.env else None
            R.check(got == want, "name", "levels=%d" % depth,
                    lambda: "schema env %r, field env %r: bound to %r, reference says %r" % (levels, case["fenv"], field.env, want))
            sib_want = ref_name(prefix, None, "ccvsib")
            sib_got = sibling.env if isinstance(sibling.env, str) and sibling.env else None
            R.check(sib_got == sib_want, "name", "sibling", lambda: "sibling bound to %r, reference says %r" % (sibling.env, sib_want))
            name = got  # drive the process environment through the name the library resolved

            var = case["var"]
            R.label("var:" + ("unset" if var is None else "empty" if var == "" else "set"))
            if name and var is not None:
                os.environ[name] = specs.subst(var)
            if sib_got and case["sibling_var"]:
                os.environ[sib_got] = case["sibling_var"]
            bound = bool(name) and bool(var)
            R.label("bound" if bound else "unbound")
            verdict = refmodel.ref(node, specs.subst(var), ctx) if bound else None
            if verdict is not None:
                R.label("var:valid" if verdict[0] == A else "var:invalid" if verdict[0] == REJ else "var:unknown")
            if len(set(type(x).__name__ + str(x) for x in levels)) > 1 and depth >= 2 and any(o["op"] in ("loads", "load_tree") for o in case["ops"]):
                R.nontrivial = True

            # ---- construction ----------------------------------------------------------------------------------
            def construct(schema, **kw):
                try:
                    return schema(key_filename=keyfile, **kw), None
                except Exception as exc:
                    return None, exc

            cfg, err = construct(root)
            if bound and verdict[0] == U:
                R.unknown += 1
                return
            if bound and verdict[0] == REJ:
                site = kind + (":with-default" if (node.get("default") or {}).get("mode") != "none" else "")
                if R.check(err is not None, "invalid", site,
                           lambda: "%s bound to %s=%r (invalid: %s) but construction succeeded; field reads %r" % (kind, name, var, verdict[1], _get(cfg, path))):
                    ok = isinstance(err, cc.ValidationError)
                    R.check(ok, "invalid-type", kind, lambda: "invalid variable raised %r, not ValidationError" % (err,))
                    if ok:
                        R.check(err.ref_path == dotted, "invalid-path", "levels=%d" % depth, lambda: "error names %r, field is %r" % (err.ref_path, dotted))
                return
            if not R.check(err is None, "construct-raises", kind, lambda: "construction raised %r (variable %s=%r)" % (err, name, var)):
                return

            site = kind + (":with-default" if (node.get("default") or {}).get("mode") != "none" else "")
            twin, twin_err = construct(twin_root)

            def check_env_value(when):
                got_v = _get(cfg, path)
                return R.check(ops.read_matches(node, got_v, verdict), "env-wins", site,
                        lambda: "%s=%r: field %s reads %r %s, reference normal form %r" % (name, var, dotted, got_v, when, verdict[1]))

            def compare_twin(when):
                a, b = _freeze(cc, cfg), _freeze(cc, twin)
                R.check(a == b, "unbound", when, lambda: "configuration differs from the no-env twin %s: %r vs %r" % (when, a, b))

            if bound:
                if not check_env_value("after construction"):
                    return  # real and reference already diverged: the rest of the history says nothing new
            else:
                compare_twin("after construction")
            assigned = None

            # ---- history ---------------------------------------------------------------------------------------
            for op in case["ops"]:
                oname = op["op"]
                R.label("op:" + oname)
                value = specs.realize(op["value"])
                if oname in ("load_tree", "loads"):
                    basic = ops.basic_form(node, op["value"], ctx)
                    tree = specs.realize(_nest(path, basic))
                    if op.get("with_sibling"):
                        inner = tree
                        for key in path[:-1]:
                            inner = inner[key]
                        inner["ccvsib"] = 6  # the document sets other keys of the same scope as well
                    if oname == "loads":
                        if not ops.is_plain(tree, op["fmt"]):
                            continue

                    def do_load(c):
                        try:
                            if oname == "loads":
                                c.loads(cc.ConfigFormat.get(op["fmt"]).dumps(c, tree), op["fmt"])
                            else:
                                c.load_tree(tree)
                            return None
                        except Exception as exc:
                            return exc
                    e1 = do_load(cfg)
                    if bound:
                        # a document never overrides the variable (nor an explicit assignment made on top of it)
                        R.check(e1 is None, "env-wins", site + ":load-raises", lambda: "a load that should skip the bound field raised %r" % (e1,))
                        if assigned is None:
                            check_env_value("after " + oname)
                        else:
                            # after an explicit assignment the statement only promises that a document does not win:
                            # the field still reads the assigned value, or the variable again when the load rebuilt
                            # the enclosing sub-configuration
                            got_v = _get(cfg, path)
                            R.check(ops.read_matches(node, got_v, assigned) or ops.read_matches(node, got_v, verdict), "env-wins", site + ":document-won",
                                    lambda: "after %s the field reads %r: neither the assigned value nor the variable %r" % (oname, got_v, var))
                    else:
                        e2 = do_load(twin)
                        R.check((e1 is None) == (e2 is None), "unbound", oname + ":outcome", lambda: "load outcome %r vs twin %r" % (e1, e2))
                        compare_twin("after " + oname)
                elif oname == "assign":
                    v2 = refmodel.ref(node, value, ctx)

                    def do_set(c):
                        try:
                            ops.set_via(c, path, value, op["how"])
                            return None
                        except Exception as exc:
                            return exc
                    e1 = do_set(cfg)
                    if bound:
                        if v2[0] == A and R.check(e1 is None, "assign-wins", site + ":rejected", lambda: "assigning a valid value raised %r" % (e1,)):
                            got_v = _get(cfg, path)
                            R.check(ops.read_matches(node, got_v, v2), "assign-wins", site, lambda: "assigned %r over the variable, reads %r" % (value, got_v))
                            assigned = v2
                        elif v2[0] == U and e1 is None:
                            return
                    else:
                        e2 = do_set(twin)
                        R.check((e1 is None) == (e2 is None), "unbound", "assign:outcome", lambda: "assign outcome %r vs twin %r" % (e1, e2))
                        compare_twin("after assign")
                elif oname == "ctor":
                    if len(path) != 1:
                        continue
                    v2 = refmodel.ref(node, value, ctx)
                    new, e1 = construct(root, **{FKEY: value})
                    if bound:
                        if v2[0] == A and R.check(e1 is None, "assign-wins", site + ":ctor-rejected", lambda: "constructor keyword with a valid value raised %r" % (e1,)):
                            got_v = _get(new, path)
                            R.check(ops.read_matches(node, got_v, v2), "assign-wins", site + ":ctor", lambda: "ctor keyword %r over the variable, reads %r" % (value, got_v))
                    else:
                        new2, e2 = construct(twin_root, **{FKEY: value})
                        R.check((e1 is None) == (e2 is None), "unbound", "ctor:outcome", lambda: "ctor outcome %r vs twin %r" % (e1, e2))
                        if new is not None and new2 is not None:
                            a, b = _freeze(cc, new), _freeze(cc, new2)
                            R.check(a == b, "unbound", "ctor", lambda: "ctor result differs from the no-env twin: %r vs %r" % (a, b))
            # ---- later configurations of the SAME schema follow the variable as it is when THEY are built ----------------
            if name:
                R.label("later-build")
                os.environ.pop(name, None)
                later, e1 = construct(root)
                twin2, e2 = construct(twin_root)
                if R.check(e1 is None and e2 is None, "built-when", "unset:raises", lambda: "construction with the variable unset raised %r / %r" % (e1, e2)):
                    a, b = _freeze(cc, later), _freeze(cc, twin2)
                    R.check(a == b, "built-when", "unset", lambda: "%s was set for an earlier configuration and is unset now: a new configuration differs from the no-env twin: %r vs %r" % (name, a, b))
                var2 = case.get("var2")
                if var2:
                    os.environ[name] = specs.subst(var2)
                    verdict2 = refmodel.ref(node, specs.subst(var2), ctx)
                    later2, e3 = construct(root)
                    if verdict2[0] == A and kind not in ("list", "dict") and not (kind == "challenge" and (node.get("default") or {}).get("mode") != "none"):
                        if R.check(e3 is None, "built-when", "changed:raises", lambda: "construction with %s=%r raised %r" % (name, var2, e3)):
                            got2 = _get(later2, path)
                            R.check(ops.read_matches(node, got2, verdict2), "built-when", "changed", lambda: "%s changed to %r before this configuration was built, the field reads %r" % (name, var2, got2))
                    elif verdict2[0] == REJ and kind not in ("list", "dict", "challenge"):
                        R.check(e3 is not None, "built-when", "changed-invalid", lambda: "%s changed to the invalid %r, construction succeeded (field reads %r)" % (name, var2, _get(later2, path)))
    finally:
        for k in [k for k in os.environ if k.startswith("CCV")]:
            del os.environ[k]
        os.environ.update(saved)


def _freeze(cc, cfg):
    from ..worlds import snapshot
    from .c06 import _mask
    return _mask(snapshot(cfg, cc))
