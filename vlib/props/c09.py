"""C09 — challenge fields keep only a salted hash that verifies exactly the secret."""
import base64
import hashlib

from hypothesis import strategies as st

from .. import sandbox, trees

ID = "C09"
LEVEL = "exploration"
DESIGN_REF = "DESIGN.md §4 C09"
RULE = (
    "Cases: hash algorithm (all six, also spelled in upper case) x secret p (str or bytes; empty, 1 char, "
    "Unicode, up to 4 kB) x a different secret q (random, or p with one character changed / case flipped / "
    "a trailing space / truncated) x format (5) x default (none | plaintext | DigestValue) x placement (root | "
    "nested schema | config type) x route (attribute, constructor keyword, load_tree, document). Oracle: the "
    "stored value is (salt, digest, algorithm) with len(salt) == digest_size and digest == "
    "hashlib(salt + p) recomputed independently; challenge(p) returns and challenge(q) raises; two "
    "assignments of p get different salts, also when the process-wide random module is re-seeded with the same "
    "value before each of them; a distinctive p (>= 12 bytes) occurs in no attribute of the value, "
    "in str()/repr(), to_tree() or any of the five dumps(); after dumps -> loads into a fresh configuration "
    "salt and digest are byte-identical and the challenges still succeed/fail; a document carrying the "
    "plaintext loads to a value with the same shape that verifies p and not q. Non-trivial = p non-ASCII or "
    ">= 64 bytes, or q a near miss of p."
)
ASSUMPTIONS = ["hashlib is correct", "coincidence bound for fresh salts: 2^-128 (md5 salt is 16 bytes)"]
REQUIRED = ["alg:md5", "alg:sha1", "alg:sha224", "alg:sha256", "alg:sha384", "alg:sha512", "p:bytes", "p:str",
            "q:near-miss", "default:plaintext", "default:digest", "route:document", "place:nested", "env:blank", "env:absent", "route:xml-handwritten"]
LEVEL_TEXT = (
    "Generated secrets/algorithms/formats with hashlib recomputation as the independent oracle and a save/load "
    "round trip; evidence on the explored inputs, kills fixed-salt / truncated-compare / re-hash-on-load mutants."
)
LEVEL_NOTE = "Trusted: CPython hashlib/base64, Hypothesis; format layer correctness is C04's concern."
TECHNIQUE = "property-based testing (Hypothesis): independent recomputation oracle + save/load round trip"

ALGS = ["md5", "sha1", "sha224", "sha256", "sha384", "sha512"]


def budget(tier):
    if tier == "quick":
        return {"cases": 700, "shards": 2}
    return {"cases": 6000, "shards": 16}


def _secret():
    xml_text = trees.text_strategy("xml", 40)
    return st.one_of(
        xml_text, xml_text,
        st.sampled_from(["", "a", "pässwörd-ünïcode", "correct horse battery staple", "P@ssw0rd!<&>\"'", " x ", "密码密码密码密码",
                         "caf\u00e9", "cafe\u0301", "\u212b", "\u00c5ngstr\u00f6m", "\u1112\u1161\u11ab", "\ud55c", "user:pass", "admin123:hunter22", ":", "a:b:c", "c2FsdA==:ZGlnZXN0", "dXNlcm5hbWU6cGFzc3dvcmQ="]),
        st.binary(max_size=40),
        st.integers(64, 4096).flatmap(lambda n: st.sampled_from(["x", "aB", "é", "Zq ", "PassWord-"]).map(lambda c: (c * n)[:n])),
    )


def _other(p):
    def near(kind):
        if isinstance(p, bytes):
            if kind == "flip" and p:
                return p[:-1] + bytes([p[-1] ^ 1])
            if kind == "trunc" and p:
                return p[:-1]
            return p + b" "
        if kind == "flip" and p:
            return p[:-1] + chr(ord(p[-1]) ^ 1 if ord(p[-1]) ^ 1 not in range(0xD800, 0xE000) else 0x41)
        if kind == "case" and p.swapcase() != p:
            return p.swapcase()
        if kind == "unicode-form":
            import unicodedata
            for form in ("NFD", "NFC", "NFKC"):
                alt = unicodedata.normalize(form, p)
                if alt != p:
                    return alt
        if kind == "trunc" and p:
            return p[:-1]
        return p + " "
    return st.one_of(
        st.sampled_from(["flip", "case", "trunc", "space", "unicode-form", "unicode-form"]).map(lambda k: {"v": near(k), "near": True}),
        _secret().map(lambda v: {"v": v, "near": False}),
    )


def _enc(x):
    return x.encode() if isinstance(x, str) else x


def strategy(tier):
    def build(p):
        return st.fixed_dictionaries({
            "alg": st.sampled_from(ALGS + ["SHA256", "Md5"]),
            "p": st.just(p),
            "q": _other(p).filter(lambda q: _enc(q["v"]) != _enc(p)),
            "fmt": st.sampled_from(trees.FORMATS),
            "default": st.sampled_from(["none", "none", "plaintext", "digest"]),
            "place": st.sampled_from(["root", "nested", "configtype"]),
            "route": st.sampled_from(["attr", "ctor", "load_tree", "document", "xml-handwritten"]),
            "salt": st.binary(min_size=0, max_size=80),
            # the field is bound to an environment variable that is absent, or present but blank (= not set, for every field)
            "env": st.sampled_from([None, None, "absent", "blank"]),
        })
    return _secret().flatmap(build)


def _contains(hay, needle):
    if isinstance(hay, str):
        hay = hay.encode("utf-8", "surrogatepass")
    return needle in hay


def _tree_strings(t):
    if isinstance(t, dict):
        for k, v in t.items():
            yield str(k)
            yield from _tree_strings(v)
    elif isinstance(t, (list, tuple)):
        for v in t:
            yield from _tree_strings(v)
    elif isinstance(t, (str, bytes, bytearray)):
        yield bytes(t) if isinstance(t, bytearray) else t


ENV_NAME = "CCVC09_PW"


def exhaustive(tier):
    """Long secrets: every algorithm x lengths around 64 KiB and 1 MiB (and a few MiB in the thorough tier), as text in 1- and
    2-byte characters and as bytes. Kept as (unit, count) descriptors so that reports and replays stay small."""
    sizes = [1 << 10, (1 << 16) - 1, 1 << 16, (1 << 16) + 1, (1 << 20) - 1, 1 << 20, (1 << 20) + 1, 600 * 1024] + ([3 << 20, 1 << 23] if tier != "quick" else [])
    for alg in ALGS:
        for n in sizes:
            for unit in ("s", "\u00e9", b"\xffb"):
                if tier == "quick" and unit != "s" and n not in ((1 << 20) + 1, 600 * 1024, 1 << 10):
                    continue
                yield {"alg": alg, "p": {"$repeat": unit, "n": n}, "q": {"v": {"$repeat": unit, "n": n - 1}, "near": True}, "fmt": "json" if isinstance(unit, str) else "pickle",
                       "default": "none", "place": "root", "route": "attr", "salt": b"", "env": None}


def _long(v):
    if isinstance(v, dict) and "$repeat" in v:
        unit = v["$repeat"]
        return (unit * (v["n"] // len(unit) + 1))[:v["n"]]
    return v


def run_case(case, R):
    import os
    if isinstance(case["p"], dict):
        case = dict(case, p=_long(case["p"]), q=dict(case["q"], v=_long(case["q"]["v"])))
        R.label("p:long")
    os.environ.pop(ENV_NAME, None)
    if case.get("env") == "blank":
        os.environ[ENV_NAME] = ""
    try:
        _run_case(case, R)
    finally:
        os.environ.pop(ENV_NAME, None)


def _run_case(case, R):
    cc = sandbox._state["cc"]
    alg = case["alg"]
    p, q = case["p"], case["q"]["v"]
    pb, qb = _enc(p), _enc(q)
    fmt = case["fmt"]
    hname = alg.lower()
    dsize = hashlib.new(hname).digest_size
    R.label("alg:" + hname, "p:" + type(p).__name__, "default:" + case["default"], "route:" + case["route"],
            "place:" + case["place"], "fmt:" + fmt)
    if case["q"]["near"]:
        R.label("q:near-miss")
    try:
        pb.decode("ascii")
        ascii_p = True
    except UnicodeDecodeError:
        ascii_p = False
    if not ascii_p or len(pb) >= 64 or case["q"]["near"]:
        R.nontrivial = True
    distinctive = len(pb) >= 12

    # -- schema ------------------------------------------------------------------------------
    hashfn = cc.ChallengeField.ALGORITHMS[hname]
    default_plain = "default-secret-§-0123456789"
    kwargs = {}
    if case["default"] == "plaintext":
        kwargs["default"] = default_plain
    elif case["default"] == "digest":
        kwargs["default"] = cc.DigestValue.create(default_plain, hashfn)
    if case.get("env"):
        kwargs["env"] = ENV_NAME
        R.label("env:" + case["env"])
    schema = cc.Schema()
    if case["place"] == "root":
        schema.pw = cc.ChallengeField(alg, **kwargs)
        schema.n = cc.IntField(default=1)
        path = ["pw"]
    elif case["place"] == "nested":
        schema.auth.inner.pw = cc.ChallengeField(alg, **kwargs)
        schema.auth.n = cc.IntField(default=1)
        path = ["auth", "inner", "pw"]
    else:
        sub = cc.Schema()
        sub.pw = cc.ChallengeField(alg, **kwargs)
        Auth = cc.make_type(sub, "Auth")
        schema.auth = Auth
        path = ["auth", "pw"]

    def get(cfg):
        v = cfg
        for k in path:
            v = getattr(v, k)
        return v

    def nest(value):
        t = value
        for k in reversed(path):
            t = {k: t}
        return t

    def check_shape(val, secret, site):
        ok = isinstance(val, cc.DigestValue) and isinstance(val.salt, bytes) and isinstance(val.digest, bytes)
        if not R.check(ok, "shape", site, "stored value is %r" % (val,)):
            return False
        R.check(len(val.salt) == dsize, "shape", site + ":salt-len", "salt has %d bytes, digest size is %d" % (len(val.salt), dsize))
        want = hashlib.new(hname, val.salt + secret).digest()
        R.check(val.digest == want, "shape", site + ":digest", "digest is not %s(salt + secret)" % hname)
        return True

    def check_verify(val, site):
        for form in ([pb, p] if isinstance(p, str) else [p]):
            try:
                val.challenge(form)
                R.checks += 1
            except Exception as exc:
                R.fail("verify", site + ":right-secret", "challenge with the right secret raised %r" % (exc,))
        for form in ([qb, q] if isinstance(q, str) else [q]):
            try:
                val.challenge(form)
                R.fail("verify", site + ":wrong-secret", "challenge(%r) succeeded for secret %r" % (form, p))
            except ValueError:
                R.checks += 1

    def check_absent(blob, site):
        if distinctive:
            R.check(not _contains(blob, pb), "no-plaintext", site, lambda: "plaintext found in %s" % site)

    # -- defaults ----------------------------------------------------------------------------
    fresh = schema()
    if case["default"] != "none":
        d1 = get(fresh)
        if check_shape(d1, default_plain.encode(), "default"):
            try:
                d1.challenge(default_plain)
                R.checks += 1
            except Exception as exc:
                R.fail("verify", "default", "default does not verify: %r" % (exc,))
            d2 = get(schema())
            if case["default"] == "plaintext":
                R.check(d1.salt != d2.salt, "fresh-salt", "default", "two configurations share the default's salt")
            else:
                R.check(d1.salt == d2.salt and d1.digest == d2.digest, "persist", "default-digest", "DigestValue default altered")
            # a configuration that still holds nothing but its default is serialised: the default's plaintext is in none of
            # the forms, and the default's salt and digest survive save + load like any other
            R.label("default:serialised-untouched")
            try:
                t0 = fresh.to_tree()
                R.check(not any(_contains(x.encode() if isinstance(x, str) else x, default_plain.encode()) for x in _tree_strings(t0)), "no-plaintext", "default:to_tree",
                        lambda: "the plaintext default occurs in to_tree() of a configuration that was never assigned: %r" % (t0,))
                for f in trees.FORMATS:
                    blob = fresh.dumps(f)
                    R.check(not _contains(blob, default_plain.encode()), "no-plaintext", "default:dumps:" + f, lambda: "the plaintext default occurs in dumps(%s) of an untouched configuration" % f)
                back = schema()
                back.loads(fresh.dumps(fmt), fmt)
                db = get(back)
                R.check(isinstance(db, cc.DigestValue) and db.salt == d1.salt and db.digest == d1.digest, "persist", "default:save-load",
                        lambda: "the default's salt / digest changed across save + load of an untouched configuration (%s)" % fmt)
            except Exception as exc:
                R.fail("crash", "default:serialise", "serialising an untouched configuration raised %r" % (exc,))
    else:
        R.check(get(fresh) is None, "shape", "default:none", "no default, but value is %r" % (get(fresh),))

    # -- assign p through the chosen route ---------------------------------------------------
    route = case["route"]
    if route == "xml-handwritten" and not (isinstance(p, str) and trees.xml_text_ok(p) and "\r" not in p):
        route = "document"
    if route == "document" and isinstance(p, bytes):
        route = "attr"  # documents carry strings
    if route == "attr":
        cfg = schema()
        obj = cfg
        for k in path[:-1]:
            obj = getattr(obj, k)
        obj.pw = p
    elif route == "ctor":
        if case["place"] == "root":
            cfg = schema(pw=p)
        else:
            cfg = schema()
            cfg["".join(k + "." for k in path[:-1]) + "pw"] = p
    elif route == "load_tree":
        cfg = schema()
        if isinstance(p, bytes):
            cfg[".".join(path)] = p
        else:
            cfg.load_tree(nest(p))
    elif route == "xml-handwritten":
        # a document written by hand: the maps are marked as such, the secret is a plain untyped element whose text is
        # the plaintext exactly as typed (leading / trailing blanks included)
        from xml.sax.saxutils import escape
        R.label("route:xml-handwritten")
        cfg = schema()
        body = "<pw>%s</pw>" % escape(p)
        for k in reversed(path[:-1]):
            body = '<%s type="dict">%s</%s>' % (k, body, k)
        cfg.loads(("<config>%s</config>" % body).encode("utf-8"), "xml")
    else:
        cfg = schema()
        doc = cc.ConfigFormat.get(fmt).dumps(cfg, nest(p))
        cfg.loads(doc, fmt)
    val = get(cfg)
    if not check_shape(val, pb, "assigned:" + route):
        return
    check_verify(val, "assigned")

    # -- fresh salt --------------------------------------------------------------------------
    obj = cfg
    for k in path[:-1]:
        obj = getattr(obj, k)
    obj.pw = p
    val2 = get(cfg)
    if check_shape(val2, pb, "reassigned"):
        R.check(val2.salt != val.salt, "fresh-salt", "reassign", "two assignments of the same secret share a salt")

    # a fresh salt does not come out of the seedable process-wide PRNG: an application (or a test fixture) that
    # calls random.seed(k) must not get the same salt for the same secret again
    import random
    prng_state = random.getstate()
    try:
        salts = []
        for _ in range(2):
            random.seed(20240917)
            other = schema()
            obj = other
            for k in path[:-1]:
                obj = getattr(obj, k)
            obj.pw = p
            salts.append(getattr(get(other), "salt", None))
    finally:
        random.setstate(prng_state)
    R.check(salts[0] != salts[1], "fresh-salt", "prng-reseeded", "after random.seed(k) the same secret gets the same salt again: the salt is predictable")

    # explicit salts: truncated to the digest size, too short rejected
    salt = case["salt"]
    try:
        dv = cc.DigestValue.create(p, hashfn, salt=salt)
        made = True
    except TypeError:
        made = False
    if 0 < len(salt) < dsize:
        R.check(not made, "shape", "create:short-salt", "a %d-byte salt was accepted for a %d-byte digest" % (len(salt), dsize))
    elif made and salt:
        R.check(dv.salt == salt[:dsize] and dv.digest == hashlib.new(hname, salt[:dsize] + pb).digest(), "shape", "create:given-salt", "given salt not used as documented")

    # -- no plaintext anywhere ---------------------------------------------------------------
    for attr in list(val2) + list(getattr(val2, "__dict__", {}).values()) + [getattr(val2, s, None) for s in getattr(type(val2), "__slots__", ())]:
        for piece in _tree_strings(attr if isinstance(attr, (dict, list, tuple, str, bytes)) else getattr(attr, "__dict__", None)):
            check_absent(piece, "in-memory value")
    check_absent(str(val2), "str(value)")
    check_absent(repr(val2), "repr(value)")
    tree = cfg.to_tree()
    for s in _tree_strings(tree):
        check_absent(s, "to_tree()")
    stored = tree
    for k in path:
        stored = stored[k]
    ok = isinstance(stored, dict) and set(stored) == {"salt", "digest"}
    if R.check(ok, "stored-shape", "to_tree", "on-disk form is %r" % (stored,)):
        R.check(base64.b64decode(stored["salt"]) == val2.salt and base64.b64decode(stored["digest"]) == val2.digest,
                "stored-shape", "to_tree:b64", "on-disk salt/digest are not the base64 of the value")
    docs = {}
    for f in trees.FORMATS:
        try:
            docs[f] = cfg.dumps(f)
        except Exception as exc:
            R.fail("dumps-raises", f, "dumps(%s) raised %r" % (f, exc))
            continue
        check_absent(docs[f], "dumps(%s)" % f)

    # -- persist -----------------------------------------------------------------------------
    if fmt in docs:
        again = schema()
        try:
            again.loads(docs[fmt], fmt)
        except Exception as exc:
            R.fail("persist", "loads:" + fmt, "loading the saved document raised %r" % (exc,))
            return
        v3 = get(again)
        if R.check(isinstance(v3, cc.DigestValue), "persist", "type", "loaded value is %r" % (v3,)):
            R.check(v3.salt == val2.salt and v3.digest == val2.digest, "persist", "bytes", "salt/digest changed by save+load")
            check_verify(v3, "persisted")
            # second generation
            third = schema()
            third.loads(again.dumps(fmt), fmt)
            v4 = get(third)
            R.check(isinstance(v4, cc.DigestValue) and v4.salt == val2.salt and v4.digest == val2.digest, "persist", "second-generation", "salt/digest changed by the second save+load")

    # -- plaintext written by hand into a file is hashed on load -------------------------------
    if isinstance(p, str):
        hand = schema()
        doc = cc.ConfigFormat.get(fmt).dumps(hand, nest(p))
        hand.loads(doc, fmt)
        hv = get(hand)
        if check_shape(hv, pb, "hash-on-load"):
            check_verify(hv, "hash-on-load")
            for f in trees.FORMATS:
                check_absent(hand.dumps(f), "dumps(%s) after hash-on-load" % f)
            # the same hand-written document loaded again into the configuration that now holds a digest (and into one
            # that holds a digest from an assignment): hashed again, with a fresh salt each time
            hand.loads(doc, fmt)
            hv2 = get(hand)
            if check_shape(hv2, pb, "hash-on-reload"):
                check_verify(hv2, "hash-on-reload")
                R.check(hv2.salt != hv.salt, "fresh-salt", "reload-handwritten", "loading the same hand-written plaintext twice into one configuration gives the same salt")
            held = get(cfg)
            cfg.loads(doc, fmt)
            hv3 = get(cfg)
            if isinstance(held, cc.DigestValue) and check_shape(hv3, pb, "hash-on-load-over-held"):
                check_verify(hv3, "hash-on-load-over-held")
                R.check(hv3.salt != held.salt, "fresh-salt", "load-over-held", "a hand-written plaintext loaded over a held digest is hashed with the held digest's salt")
