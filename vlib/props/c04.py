"""C04 — each format decodes what it encodes, types intact, and all formats agree."""
from hypothesis import strategies as st

from .. import sandbox, trees

ID = "C04"
LEVEL = "exploration"
DESIGN_REF = "DESIGN.md §4 C04"
RULE = (
    "Hypothesis generates plain-data trees (string-keyed maps, lists, None/bool/int/float incl. NaN, "
    "±inf, -0.0/str) inside each format's stated domain plus option values (JSON pretty, YAML root_key, "
    "XML root_tag) and, for the cross-format clause, trees in the intersection of all five domains. "
    "Oracle: loads(dumps(t)) is strictly type-equal to t through ConfigFormat.get(name, **opts), the "
    "decoded tree is identical for every option value, all five decoders agree, a wrong XML root tag "
    "is rejected, dumps returns bytes. Non-trivial = depth >= 2 and a type-confusable leaf "
    "('1' vs 1, 'true', '', empty containers, NaN, -0.0, text needing escaping); distinct by SHA-1 "
    "of the descriptor."
)
ASSUMPTIONS = [
    "CPython builtins and the strict tree equality of vlib/trees.py are correct",
    "domains as stated by the property: XML text = XML 1.0 Char without CR, XML keys = names; "
    "BSON ints 64-bit, BSON keys without NUL; no lone surrogates anywhere",
]
REQUIRED = ["fmt:json", "fmt:yaml", "fmt:bson", "fmt:xml", "fmt:pickle", "mode:agree", "mode:wrongroot"]


# thorough tier: coverage-guided campaigns (atheris/libFuzzer over this module's strategy, cincoconfig instrumented)
FUZZ = {"runs": 8000, "campaigns": 4}


def budget(tier):
    if tier == "quick":
        return {"cases": 2500, "shards": 2}
    return {"cases": 25000, "shards": 16}


def _options(fmt):
    if fmt == "json":
        return st.lists(st.fixed_dictionaries({"pretty": st.booleans()}), min_size=1, max_size=2)
    if fmt == "yaml":
        rk = st.one_of(st.none(), st.just("CONFIG"), st.sampled_from(["a", "config", "item", ""]),
                       trees.text_strategy("yaml", 6))
        return st.lists(st.fixed_dictionaries({"root_key": rk}), min_size=1, max_size=3)
    if fmt == "xml":
        tag = st.one_of(st.sampled_from(["config", "a", "item", "root", "x-y.z", "_"]), trees.key_strategy("xml"))
        return st.lists(st.fixed_dictionaries({"root_tag": tag}), min_size=1, max_size=3)
    return st.just([{}])


def strategy(tier):
    leaves = 10 if tier == "quick" else 25

    def single(fmt):
        return st.fixed_dictionaries({
            "mode": st.just("roundtrip"), "fmt": st.just(fmt),
            "tree": trees.tree_strategy(fmt, leaves), "opts": _options(fmt),
        })

    agree = st.fixed_dictionaries({"mode": st.just("agree"), "tree": trees.common_tree_strategy(leaves)})
    wrong = st.fixed_dictionaries({
        "mode": st.just("wrongroot"), "tree": trees.tree_strategy("xml", 6),
        "tags": st.one_of(
            st.lists(st.one_of(st.sampled_from(["config", "Config", "a", "item"]), trees.key_strategy("xml")), min_size=2, max_size=2, unique=True),
            # tags that contain each other: a reader must compare the whole tag
            st.sampled_from([["appconfig", "config"], ["config", "appconfig"], ["my-config", "config"], ["xa", "a"], ["a", "xa"], ["configx", "config"],
                             ["config", "configx"], ["config", "conf"], ["conf", "config"], ["ns.config", "config"], ["config_", "config"]]),
            trees.key_strategy("xml").flatmap(lambda k: st.sampled_from([[k + "x", k], ["x" + k, k], [k, k + "x"], [k, "x" + k], [k.upper(), k.lower()]]).filter(lambda p: p[0] != p[1]))),
    })
    return st.one_of(*[single(f) for f in trees.FORMATS], agree, agree, wrong)


def _get(fmt, **opts):
    cc = sandbox._state["cc"]
    return cc.ConfigFormat.get(fmt, **opts)


def _roundtrip(R, fmt, tree, opts, cfg):
    site = fmt
    try:
        data = _get(fmt, **opts).dumps(cfg, tree)
    except Exception as exc:  # the tree is inside the domain: encoding must work
        R.fail("encode-raises", site, "%s.dumps(%r, opts=%r) raised %r" % (fmt, tree, opts, exc))
        return None
    R.check(isinstance(data, bytes), "bytes", site, "dumps returned %s" % type(data).__name__)
    try:
        back = _get(fmt, **opts).loads(cfg, data)
    except Exception as exc:
        R.fail("decode-raises", site, "%s.loads(own output for %r, opts=%r) raised %r" % (fmt, tree, opts, exc))
        return None
    R.check(trees.tree_eq(back, tree), "roundtrip", site,
            lambda: "%s opts=%r: %s" % (fmt, opts, trees.tree_diff(tree, back)))
    # decoding is a function of the bytes: the caller owns the decoded tree and may edit it; the same bytes decoded once
    # more (by the same and by a new format object) still give the tree that was encoded
    import copy
    keep = copy.deepcopy(back)
    if _scribble(back):
        R.label("decoded-tree-edited-in-place")
        for who, fmtr in (("new-object", _get(fmt, **opts)), ("same-bytes-object", _get(fmt, **opts))):
            try:
                again = fmtr.loads(cfg, bytes(data))
            except Exception as exc:
                R.fail("decode-raises", site + ":again", "%s.loads of the same bytes raised %r the second time" % (fmt, exc))
                break
            if not R.check(trees.tree_eq(again, tree), "roundtrip", site + ":decode-again",
                           lambda: "%s opts=%r: the first decoded tree was edited in place; decoding the same bytes again gives %s" % (fmt, opts, trees.tree_diff(tree, again))):
                break
            _scribble(again)
    return keep


def _scribble(tree):
    """Edit every container of a decoded tree in place. Returns whether anything could be edited."""
    done = False
    if isinstance(tree, dict):
        for v in list(tree.values()):
            done = _scribble(v) or done
        tree["zz-scribbled"] = [1]
        done = True
    elif isinstance(tree, list):
        for v in tree:
            done = _scribble(v) or done
        tree.append("zz-scribbled")
        done = True
    return done


def run_case(case, R):
    cc = sandbox._state["cc"]
    cfg = cc.Schema()()
    tree = case["tree"]
    mode = case["mode"]
    R.label("mode:" + mode)
    if trees.depth(tree) >= 2 and trees.has_confusable(tree):
        R.nontrivial = True

    if mode == "roundtrip":
        fmt = case["fmt"]
        R.label("fmt:" + fmt)
        results = []
        for opts in case["opts"]:
            results.append(_roundtrip(R, fmt, tree, opts, cfg))
        good = [r for r in results if r is not None]
        for r in good[1:]:
            R.check(trees.tree_eq(good[0], r), "options-neutral", fmt,
                    lambda: "decoded trees differ between option values %r: %s" % (case["opts"], trees.tree_diff(good[0], r)))
        if len(case["opts"]) > 1:
            R.label("multi-option")
    elif mode == "agree":
        decoded = {}
        for fmt in trees.FORMATS:
            R.label("fmt:" + fmt)
            decoded[fmt] = _roundtrip(R, fmt, tree, {}, cfg)
        ref = decoded.get("pickle")
        for fmt, val in decoded.items():
            if val is not None and ref is not None:
                R.check(trees.tree_eq(val, ref), "agree", fmt,
                        lambda: "%s decodes to a different tree than pickle: %s" % (fmt, trees.tree_diff(ref, val)))
    elif mode == "wrongroot":
        a, b = case["tags"]
        try:
            data = _get("xml", root_tag=a).dumps(cfg, tree)
        except Exception as exc:
            R.fail("encode-raises", "xml", "xml.dumps raised %r" % (exc,))
            return
        try:
            got = _get("xml", root_tag=b).loads(cfg, data)
        except ValueError:
            R.checks += 1
        except Exception as exc:
            R.fail("wrong-root-exc", "xml", "wrong root tag rejected with %r, not ValueError" % (exc,))
        else:
            R.fail("wrong-root", "xml", "document with root <%s> accepted by a reader for <%s>: %r" % (a, b, got))
        # and the right tag still reads
        _roundtrip(R, "xml", tree, {"root_tag": a}, cfg)

LEVEL_TEXT = (
    "Generated-input search: every format is driven with thousands of plain-data trees from its stated domain and "
    "every option value, against a strict typed round-trip / cross-format agreement oracle. It shows the property "
    "on the explored trees and kills the listed mutants; it cannot show absence of a counterexample."
)
LEVEL_NOTE = ("Trusted: CPython, Hypothesis, vlib/trees.py strict equality. Domains are the ones the property "
              "states (XML chars without CR, XML names, 64-bit BSON ints).")
TECHNIQUE = "property-based testing (Hypothesis): round-trip + differential across formats + metamorphic over options"
