"""C18 — including files is a deep merge in the including scope, included values win."""
import copy
import os

from hypothesis import strategies as st

from .. import sandbox, trees
from ..trees import tree_eq, tree_diff

ID = "C18"
LEVEL = "exploration"
DESIGN_REF = "DESIGN.md §4 C18"
RULE = (
    "Metamorphic + reference-model testing. (merge) pairs of plain-data trees over a small key pool (so that keys "
    "overlap at depth 1..4 and map/non-map conflicts occur) go through IncludeField.combine_trees and are compared "
    "with a reference deep merge and with the path-wise law (child value wins unless both sides are maps; "
    "one-sided keys kept; key set = union at every level); deep copies prove neither argument is mutated. "
    "(equivalence) a dynamic schema with include fields at the root (a chain of two in one scope), in a nested "
    "and in a doubly nested sub-schema; included files may name further files (for the later field of their scope or "
    "for a nested scope), also overriding the name the base document gave; generated base document and included files are written as real files in "
    "the sandbox in one of the 5 formats, referenced by relative (against a generated start directory) or "
    "absolute paths; loading the document must leave the configuration in exactly the state that load_tree of "
    "the reference-merged tree produces on a fresh configuration of the same schema (or both must fail). "
    "(must-exist) an include that is missing, a directory or outside the start directory makes the load raise and "
    "leaves the configuration unchanged. Non-trivial = overlap at depth >= 2 with a map/scalar conflict, or an "
    "include in a nested scope."
)
ASSUMPTIONS = [
    "an included file names further files only for include fields that are still to be processed when it is merged "
    "(a later include field of its own scope, an include field of a nested scope); what a file that names its own or "
    "an earlier include field means is not stated by the property",
    "the format layer (C04) is trusted to write the files the harness prepares",
]
REQUIRED = ["format-options", "cwd-decoy", "mode:merge", "mode:load", "mode:missing", "scope:root", "scope:nested", "scope:deep", "chain", "chain:named-by-included-file", "link:same", "link:nested", "schema-extended-after-a-load", "nested-scope-only-from-included-file", "startdir:home-relative", "reload-after-edit", "path:relative",
            "path:absolute", "conflict:map-vs-scalar"] + ["fmt:" + f for f in trees.FORMATS]
LEVEL_TEXT = (
    "Generated tree pairs/chains and real include files with a 10-line reference merge and a metamorphic "
    "equivalence (load-with-includes == load-of-merged-tree) as oracles; kills base-wins / shallow-merge / in-place "
    "merge / wrong-scope mutants."
)
LEVEL_NOTE = "Trusted: CPython, Hypothesis, reference merge in this module, strict tree equality, C04's format layer."
TECHNIQUE = "property-based testing (Hypothesis): reference model for the merge + metamorphic equivalence of loads"

KEYS = ["a", "b", "c", "d", "sub", "deep", "e1"]
INC_KEYS = ("include", "include2")


def budget(tier):
    if tier == "quick":
        return {"cases": 1000, "shards": 2}
    return {"cases": 8000, "shards": 16}


def _scalar():
    return st.one_of(st.none(), st.booleans(), st.integers(-5, 5), st.sampled_from([1.5, "x", "", "true", "1", [], [1, "a"], [{"a": 1}]]),
                     st.text(st.characters(min_codepoint=0x20, max_codepoint=0x7E), max_size=4))


def _tree(depth, level=0):
    # deeper levels draw from fewer keys, so that overlaps at depth 3-4 are common
    keys = st.sampled_from(KEYS if level == 0 else KEYS[:3] + ["sub"][: 1 if level == 1 else 0])
    if depth == 0:
        return st.dictionaries(keys, _scalar(), max_size=4)
    return st.dictionaries(keys, st.one_of(_scalar(), st.deferred(lambda: _tree(depth - 1, level + 1)), st.deferred(lambda: _tree(depth - 1, level + 1)), st.just({})), max_size=4)


def strategy(tier):
    depth = 3 if tier == "quick" else 4
    merge = st.fixed_dictionaries({"mode": st.just("merge"), "base": _tree(depth), "child": _tree(depth)})
    scope = st.sampled_from(["root", "nested", "deep"])
    load = st.fixed_dictionaries({
        "mode": st.just("load"), "fmt": st.sampled_from(trees.FORMATS), "base": _tree(depth),
        "includes": st.lists(st.fixed_dictionaries({"scope": st.one_of(scope, st.just("root")), "slot": st.integers(0, 1), "tree": _tree(depth - 1),
                                                    "how": st.sampled_from(["relative", "relative-sub", "absolute"])}), min_size=1, max_size=4),
        "startdir": st.sampled_from(["inc", "inc/more", None]),
        "prestate": _tree(1),
        "fopts": st.sampled_from([None, None, "app"]),  # yaml root_key / xml root_tag passed to loads() and used for every file
        "late": st.sampled_from([None, None, "chain", "item"]),
        "startdir_style": st.sampled_from(["abs", "abs", "home"]),
        "drop_scope": st.booleans(),
        "links": st.integers(0, 5).flatmap(lambda k: st.lists(st.fixed_dictionaries({"from": st.integers(0, 3), "to": st.integers(0, 3), "where": st.sampled_from(["same", "nested", "nested"]),
                                                                                      "slot": st.integers(0, 1)}), min_size=min(k, 3), max_size=min(k, 3))),
    })
    missing = st.fixed_dictionaries({
        "mode": st.just("missing"), "fmt": st.sampled_from(trees.FORMATS), "base": _tree(2), "scope": scope,
        "what": st.sampled_from(["missing", "directory", "missing-abs", "outside-startdir", "empty-dir-name"]),
        "prestate": _tree(1),
    })
    return st.one_of(merge, merge, load, load, load, missing)


def ref_merge(base, child):
    out = dict(base)
    for k, v in child.items():
        if k in base and isinstance(base[k], dict) and isinstance(v, dict):
            out[k] = ref_merge(base[k], v)
        else:
            out[k] = v
    return out


def _law(R, base, child, result, path=()):
    """Path-wise statement of the merge law."""
    ok = isinstance(result, dict)
    if not R.check(ok, "merge-law", "type", "merge result at %r is %r" % (path, result)):
        return
    R.check(set(result) == set(base) | set(child), "merge-law", "keys", lambda: "keys at %r: %r, want union of %r and %r" % (path, sorted(result), sorted(base), sorted(child)))
    for k in set(base) | set(child):
        if k not in result:
            continue
        if k in child and k in base and isinstance(base[k], dict) and isinstance(child[k], dict):
            _law(R, base[k], child[k], result[k], path + (k,))
        elif k in child:
            R.check(tree_eq(result[k], child[k]), "merge-law", "child-wins", lambda: "at %r: %r, included value %r must win over %r" % (path + (k,), result[k], child[k], base.get(k)))
        else:
            R.check(tree_eq(result[k], base[k]), "merge-law", "base-kept", lambda: "at %r: %r, base-only value %r must be kept" % (path + (k,), result[k], base[k]))


def _conflict(base, child, depth=1):
    """(max overlap depth, has map-vs-scalar conflict)"""
    best, conf = 0, False
    for k in set(base) & set(child):
        best = max(best, depth)
        b, c = base[k], child[k]
        if isinstance(b, dict) != isinstance(c, dict):
            conf = True
        if isinstance(b, dict) and isinstance(c, dict):
            d2, c2 = _conflict(b, c, depth + 1)
            best, conf = max(best, d2), conf or c2
    return best, conf


def _schema(cc, startdir, late=None, fmt="json"):
    """``late``: the schema is used for a load first and only then gets (some of) its include fields - declared by
    attribute assignment, through a chain of attributes, or through a dotted item path."""
    schema = cc.Schema(dynamic=True)
    schema.include = cc.IncludeField(startdir=startdir)
    if not late:
        schema.include2 = cc.IncludeField(startdir=startdir)
    schema.sub = cc.Schema(dynamic=True)
    if not late:
        schema.sub.include = cc.IncludeField(startdir=startdir)
        schema.sub.include2 = cc.IncludeField(startdir=startdir)
        schema.sub.deep = cc.Schema(dynamic=True)
        schema.sub.deep.include = cc.IncludeField(startdir=startdir)
        schema.sub.deep.include2 = cc.IncludeField(startdir=startdir)
        return schema
    first = schema()
    first.loads(cc.ConfigFormat.get(fmt).dumps(first, {"a": 1, "sub": {"b": 2}}), fmt)  # the schema has been loaded through once
    schema.include2 = cc.IncludeField(startdir=startdir)
    if late == "chain":
        schema.sub.include = cc.IncludeField(startdir=startdir)
        schema.sub.include2 = cc.IncludeField(startdir=startdir)
        schema.sub.deep = cc.Schema(dynamic=True)
        schema.sub.deep.include = cc.IncludeField(startdir=startdir)
        schema.sub.deep.include2 = cc.IncludeField(startdir=startdir)
    else:
        schema["sub.include"] = cc.IncludeField(startdir=startdir)
        schema["sub.include2"] = cc.IncludeField(startdir=startdir)
        schema["sub.deep"] = cc.Schema(dynamic=True)
        schema["sub.deep.include"] = cc.IncludeField(startdir=startdir)
        schema["sub.deep.include2"] = cc.IncludeField(startdir=startdir)
    return schema


def _strip_inc(tree):
    """Included trees and generated bases never carry include keys of their own."""
    if not isinstance(tree, dict):
        return tree
    return {k: _strip_inc(v) for k, v in tree.items() if k not in INC_KEYS}


def _snap(cc, cfg):
    def conv(v):
        if isinstance(v, cc.Config):
            return {"$cfg": {k: conv(x) for k, x in v}}
        if isinstance(v, list):
            return [conv(x) for x in v]
        if isinstance(v, dict):
            return {k: conv(x) for k, x in v.items()}
        return v
    return conv(cfg)


def _scope_path(scope):
    return {"root": (), "nested": ("sub",), "deep": ("sub", "deep")}[scope]


def _ensure_scope(tree, path):
    node = tree
    for k in path:
        if not isinstance(node.get(k), dict):
            node[k] = {}
        node = node[k]
    return node


def exhaustive(tier):
    """Included files over a sweep of sizes (formats with a length prefix / significant first bytes make the first bytes of the
    included file vary with its size), at the root and in a nested scope."""
    top = 300 if tier == "quick" else 700
    for fmt in trees.FORMATS:
        step = 1 if fmt == "bson" or tier != "quick" else 11
        for n in range(0, top, step):
            yield {"mode": "include-size", "fmt": fmt, "n": n, "scope": "root" if n % 2 == 0 else "nested"}
    for where in ("included", "including"):
        for route in ("combine_trees", "yaml", "pickle"):
            for scope in ("root", "nested"):
                yield {"mode": "aliased", "where": where, "route": route, "scope": scope}


def _aliased_case(case, R):
    """The included tree (or the including one) holds ONE map object at several keys - what a YAML anchor / alias or a
    pickled shared reference decodes to. The merge is by value all the same."""
    cc = sandbox._state["cc"]
    where, route, scope = case["where"], case["route"], case["scope"]
    R.label("mode:aliased", "aliased:" + route)
    R.nontrivial = True
    shared = {"host": "h", "opts": {"x": 1, "y": [1, 2]}}
    aliased = {"first": shared, "second": shared, "third": {"inner": shared}, "n": 1}
    other = {"first": {"port": 1}, "second": {"port": 2, "opts": {"z": 3}}, "third": {"inner": {"port": 3}, "k": 0}, "m": 2}
    base, child = (other, aliased) if where == "included" else (aliased, other)
    want = ref_merge(copy.deepcopy(base), copy.deepcopy(child))
    if route == "combine_trees":
        b, c = copy.deepcopy(base), copy.deepcopy(child)
        got = cc.IncludeField().combine_trees(b, c)
        R.check(tree_eq(got, want), "merge-ref", "aliased:combine_trees", lambda: "combine_trees with one map object at several keys of the %s tree: %s" % (where, tree_diff(want, got)))
        return
    fmt = route
    with sandbox.CaseDir() as d:
        schema = cc.Schema(dynamic=True)
        schema.include = cc.IncludeField(startdir=d)
        schema.sub = cc.Schema(dynamic=True)
        schema.sub.include = cc.IncludeField(startdir=d)
        formatter = cc.ConfigFormat.get(fmt)
        dummy = schema()

        def encode(tree):
            if fmt == "yaml":
                import yaml
                return yaml.dump(tree, Dumper=yaml.Dumper).encode()  # (PyYAML writes the shared map once, with an anchor, and aliases it)
            import pickle
            return pickle.dumps(tree)
        with open(os.path.join(d, "child." + fmt), "wb") as fp:
            fp.write(encode(copy.deepcopy(child)))
        b = copy.deepcopy(base)
        b["include"] = "child." + fmt
        doc = encode(b if scope == "root" else {"sub": b})
        if fmt == "yaml" and where == "including":
            R.check(b"&id" in doc and b"*id" in doc, "harness", "aliased:anchor", "the YAML document carries no anchor / alias")
        cfg = schema()
        try:
            cfg.loads(doc, fmt)
            holder = cfg if scope == "root" else cfg.sub
            got = {k: v for k, v in holder.to_tree().items() if k != "include" and not (k == "sub" and scope == "root")}
            err = None
        except Exception as exc:
            got, err = None, exc
        R.check(err is None and tree_eq(got, want), "equivalence", "aliased:%s:%s" % (fmt, where),
                lambda: "%s document, one map object at several keys of the %s tree (%s scope): %s" % (fmt, where, scope, err if err else tree_diff(want, got)))


def _include_size_case(case, R):
    cc = sandbox._state["cc"]
    fmt, n = case["fmt"], case["n"]
    R.label("mode:include-size", "include-size:" + fmt)
    with sandbox.CaseDir() as d:
        schema = cc.Schema(dynamic=True)
        schema.include = cc.IncludeField(startdir=d)
        schema.sub = cc.Schema(dynamic=True)
        schema.sub.include = cc.IncludeField(startdir=d)
        formatter = cc.ConfigFormat.get(fmt)
        dummy = schema()
        child = {"text": "x" * n, "n": n}
        with open(os.path.join(d, "child." + fmt), "wb") as fp:
            fp.write(formatter.dumps(dummy, child))
        base = {"a": 1, "include": "child." + fmt} if case["scope"] == "root" else {"a": 1, "sub": {"include": "child." + fmt}}
        cfg = schema()
        try:
            cfg.loads(formatter.dumps(dummy, base), fmt)
            got = cfg if case["scope"] == "root" else cfg.sub
            ok, err = (got.text == child["text"] and got.n == n), None
        except Exception as exc:
            ok, err = False, exc
        R.check(ok, "equivalence", "include-size:" + fmt, lambda: "an included %s file holding a %d-character string was not merged as it is (%r)" % (fmt, n, err))
        R.nontrivial = n % 16 == 11


def run_case(case, R):
    if case.get("mode") == "include-size":
        return _include_size_case(case, R)
    if case.get("mode") == "aliased":
        return _aliased_case(case, R)
    cc = sandbox._state["cc"]
    mode = case["mode"]
    R.label("mode:" + mode)
    if mode == "merge":
        base, child = case["base"], case["child"]
        b0, c0 = copy.deepcopy(base), copy.deepcopy(child)
        field = cc.IncludeField()
        result = field.combine_trees(base, child)
        R.check(tree_eq(base, b0), "no-mutation", "base", lambda: "combine_trees mutated its base argument: %s" % tree_diff(b0, base))
        R.check(tree_eq(child, c0), "no-mutation", "child", lambda: "combine_trees mutated its child argument: %s" % tree_diff(c0, child))
        want = ref_merge(b0, c0)
        R.check(tree_eq(result, want), "merge-ref", "combine_trees", lambda: "combine_trees differs from the reference deep merge: %s" % tree_diff(want, result))
        _law(R, b0, c0, result)
        # mutating the result's top level must not reach the inputs either
        if isinstance(result, dict):
            result["__probe__"] = 1
            R.check("__probe__" not in base and "__probe__" not in child, "no-mutation", "aliasing-top", "the result is one of the arguments")
        d, conf = _conflict(b0, c0)
        if conf:
            R.label("conflict:map-vs-scalar")
        if d >= 2 and conf:
            R.nontrivial = True
        return

    fmt = case["fmt"]
    R.label("fmt:" + fmt)
    with sandbox.CaseDir() as d:
        startdir = os.path.join(d, case.get("startdir") or "abs-only") if mode == "load" else os.path.join(d, "inc")
        os.makedirs(os.path.join(d, "inc", "more", "subdir"), exist_ok=True)
        os.makedirs(startdir, exist_ok=True)
        use_startdir = startdir if (mode != "load" or case.get("startdir")) else None
        if mode == "load" and case.get("startdir") and case.get("startdir_style") == "home":
            # the start directory is declared relative to the home directory ("~/..."): same files, another spelling
            startdir = os.path.join(sandbox.home(), "c18-" + os.path.basename(d), case["startdir"])
            os.makedirs(startdir, exist_ok=True)
            use_startdir = "~/" + os.path.relpath(startdir, sandbox.home())
            R.label("startdir:home-relative")
        late = case.get("late") if mode == "load" else None
        if late:
            R.label("schema-extended-after-a-load")
        schema = _schema(cc, use_startdir, late, fmt)
        fopts = {}
        if mode == "load" and case.get("fopts") and fmt in ("yaml", "xml"):
            fopts = {"root_key": case["fopts"]} if fmt == "yaml" else {"root_tag": case["fopts"]}
            R.label("format-options")
        formatter = cc.ConfigFormat.get(fmt, **fopts)
        dummy = schema()

        def prestate(cfg):
            try:
                cfg.load_tree(_strip_inc(case["prestate"]))
            except Exception:
                pass

        if mode == "missing":
            base = _strip_inc(copy.deepcopy(case["base"]))
            spath = _scope_path(case["scope"])
            R.label("scope:" + case["scope"])
            node = _ensure_scope(base, spath)
            what = case["what"]
            target = {"missing": "nope.cfg", "directory": "more", "missing-abs": os.path.join(d, "inc", "nope.cfg"),
                      "outside-startdir": "../../definitely/not/there.cfg", "empty-dir-name": "more/subdir"}[what]
            node["include"] = target
            doc = formatter.dumps(dummy, base)
            decoy = None
            if what in ("missing", "directory"):
                # the same relative name exists as a proper file in the working directory: still not a valid include
                decoy = os.path.join(os.getcwd(), "nope.cfg" if what == "missing" else "more")
                if not os.path.exists(decoy):
                    with open(decoy, "wb") as fp:
                        fp.write(formatter.dumps(dummy, {"decoy-from-cwd": True}))
                else:
                    decoy = None
            cfg = schema()
            prestate(cfg)
            before = _snap(cc, cfg)
            try:
                cfg.loads(doc, fmt)
                R.fail("must-exist", what, "a document whose include %r does not name an existing file loaded without error" % (target,))
            except Exception:
                R.checks += 1
            R.check(tree_eq(_snap(cc, cfg), before), "must-exist", "unchanged:" + what, lambda: "the failed load changed the configuration: %s" % tree_diff(before, _snap(cc, cfg)))
            if spath:
                R.nontrivial = True
            if decoy:
                os.unlink(decoy)
            return

        # -- load with includes ------------------------------------------------------------------
        decoys = []
        base = _strip_inc(copy.deepcopy(case["base"]))
        used = set()
        plan = []
        files = {}   # include reference (as written into a document) -> tree of that file
        refs = []
        # every generated file is written; the base document names the first one generated per (scope, field)
        for i, inc in enumerate(case["includes"]):
            how = inc["how"] if use_startdir else "absolute"
            fname = "f%d.%s" % (i, fmt)
            if how == "relative":
                full, ref = os.path.join(startdir, fname), fname
            elif how == "relative-sub":
                os.makedirs(os.path.join(startdir, "rel"), exist_ok=True)
                full, ref = os.path.join(startdir, "rel", fname), os.path.join("rel", fname)
            else:
                full = ref = os.path.join(d, "inc", "abs-" + fname)
            refs.append((full, ref, how))
            files[ref] = _strip_inc(inc["tree"])
        # an included file may itself name a further file: for a later include field of its own scope, or for an
        # include field of a scope nested in its own (both are read from the tree merged so far)
        for link in case.get("links", []):
            src, dst = link["from"] % len(refs), link["to"] % len(refs)
            if src == dst:
                continue
            rel = () if link["where"] == "same" else ("sub",) if case["includes"][src]["scope"] == "root" else ("deep",)
            if link["where"] == "nested" and case["includes"][src]["scope"] == "deep":
                continue
            if link["where"] == "same" and case["includes"][src]["slot"] == 1:
                continue  # only a later field of the same scope is still to be processed
            key = "include2" if link["where"] == "same" else INC_KEYS[link["slot"]]
            _ensure_scope(files[refs[src][1]], rel)[key] = refs[dst][1]
            R.label("link:" + link["where"])
        if case.get("drop_scope") and any(l["where"] == "nested" for l in case.get("links", [])):
            # the including document itself has nothing at the nested scope: the map there (and the include it names)
            # comes entirely from a file included at the enclosing scope
            base.pop("sub", None)
            R.label("nested-scope-only-from-included-file")
        for i, inc in enumerate(case["includes"]):
            full, ref, how = refs[i]
            R.label("path:" + ("absolute" if how == "absolute" else "relative"))
            with open(full, "wb") as fp:
                fp.write(formatter.dumps(dummy, files[ref]))
            if how != "absolute":
                # a file of the same relative name in the process working directory must play no role
                decoy = os.path.join(os.getcwd(), ref)
                os.makedirs(os.path.dirname(decoy), exist_ok=True)
                with open(decoy, "wb") as fp:
                    fp.write(formatter.dumps(dummy, {"decoy-from-cwd": True, "a": "decoy"}))
                decoys.append(decoy)
                R.label("cwd-decoy")
            spath = _scope_path(inc["scope"])
            key = INC_KEYS[inc["slot"]]
            if (spath, key) in used:
                continue
            used.add((spath, key))
            plan.append((spath, key, inc, i))
            _ensure_scope(base, spath)[key] = ref
            R.label("scope:" + inc["scope"])
        if len({t[0] for t in plan}) < len(plan):
            R.label("chain")

        # reference semantics: in every scope the include fields are taken in schema order, each file name is read
        # from the tree merged so far and that file's tree is deep-merged into the scope; then the nested scopes
        merged_files = []

        def ref_process(tree, level):
            for key in INC_KEYS:
                name = tree.get(key)
                if name is None:
                    continue
                merged_files.append(name)
                tree = ref_merge(tree, files[name])
            child = ("sub", "deep")[level] if level < 2 else None
            if child and tree.get(child) and isinstance(tree[child], dict):
                tree = dict(tree)
                tree[child] = ref_process(tree[child], level + 1)
            return tree

        expected = ref_process(copy.deepcopy(base), 0)
        named_by_base = {refs[t[3]][1] for t in plan}
        if any(name not in named_by_base for name in merged_files):
            R.label("chain:named-by-included-file")
        doc = formatter.dumps(dummy, base)

        real = schema()
        prestate(real)
        try:
            real.loads(doc, fmt, **fopts)
            real_out = ("ok", _snap(cc, real))
        except Exception as exc:
            real_out = ("raised", exc)
        if real_out[0] == "raised" and isinstance(real_out[1], cc.ValidationError) and isinstance(getattr(real_out[1], "field", None), cc.IncludeField):
            # every include named by the base document or by an included file is a file this case has written below the
            # start directory (or by absolute path): none of them may be rejected
            R.fail("resolve", "existing-include-rejected", "an include that names an existing file (start directory %r) was rejected: %s" % (use_startdir, real_out[1]))
        model = schema()
        prestate(model)
        try:
            model.load_tree(copy.deepcopy(expected))
            model_out = ("ok", _snap(cc, model))
        except Exception as exc:
            model_out = ("raised", exc)
        if R.check(real_out[0] == model_out[0], "equivalence", "outcome",
                   lambda: "loads(document with includes) %s but load_tree(merged tree) %s; merged=%r" % (real_out, model_out, expected)):
            if real_out[0] == "ok":
                R.check(tree_eq(real_out[1], model_out[1]), "equivalence", "state",
                        lambda: "state after loads differs from state after load_tree(merged): %s" % tree_diff(model_out[1], real_out[1]))
        # ---- the included files are edited on disk and the same document is loaded again (same schema object) ------------
        if real_out[0] == "ok" and model_out[0] == "ok" and merged_files:
            R.label("reload-after-edit")
            for n, (full, ref, how) in enumerate(refs):
                files[ref] = ref_merge(files[ref], {"e1": "edited-%d" % n, "c": {"a": n}})
                with open(full, "wb") as fp:
                    fp.write(formatter.dumps(dummy, files[ref]))
            del merged_files[:]
            expected2 = ref_process(copy.deepcopy(base), 0)
            real2 = schema()
            prestate(real2)
            try:
                real2.loads(doc, fmt, **fopts)
                out2 = ("ok", _snap(cc, real2))
            except Exception as exc:
                out2 = ("raised", exc)
            model2 = schema()
            prestate(model2)
            try:
                model2.load_tree(copy.deepcopy(expected2))
                mout2 = ("ok", _snap(cc, model2))
            except Exception as exc:
                mout2 = ("raised", exc)
            if R.check(out2[0] == mout2[0], "equivalence", "outcome:reload", lambda: "second load after the included files were edited: %s vs %s" % (out2, mout2)) and out2[0] == "ok":
                R.check(tree_eq(out2[1], mout2[1]), "equivalence", "state:reload",
                        lambda: "after the included files were edited on disk, a new load differs from load_tree(merged): %s" % tree_diff(mout2[1], out2[1]))
        dmax, conf = 0, False
        for spath, key, inc, i in plan:
            node = base
            for k in spath:
                node = node.get(k, {}) if isinstance(node, dict) else {}
            if isinstance(node, dict):
                d2, c2 = _conflict(node, _strip_inc(inc["tree"]))
                dmax, conf = max(dmax, d2), conf or c2
        if conf:
            R.label("conflict:map-vs-scalar")
        if any(t[0] for t in plan) or (dmax >= 2 and conf):
            R.nontrivial = True
        for path in decoys:
            try:
                os.unlink(path)
            except OSError:
                pass
