"""C15 — every rejection is a validation error that names the offending field's full path."""
import os

from hypothesis import strategies as st

from .. import ops, refmodel, sandbox, specs, trees, worlds
from ..refmodel import A, REJ, U

ID = "C15"
LEVEL = "exploration"
DESIGN_REF = "DESIGN.md §4 C15"
RULE = (
    "A case = (schema spec with nested schemas, config types, lists of schemas / config types, typed lists and "
    "dicts, friendly names; one target: a declared leaf at depth 1-4, a leaf of the i-th configuration of a list "
    "(with 0-3 items already present), an entry of a typed dict, an item of a typed scalar list, or a "
    "sub-configuration slot; a candidate value of every shape - None for required fields, wrong scalar types, "
    "NaN/inf, 2**200, lists, dicts, nested junk, a non-map for a sub-configuration - kept only if the reference "
    "validator rejects it; a route: attribute, dotted path, constructor keyword, assigning the enclosing "
    "list/dict/map, in-place append/insert/[i]=/[k]=, load_tree, loads in a random format). Oracle whenever the "
    "operation raises: the exception is cincoconfig.ValidationError (hence ValueError) and nothing else; its "
    "ref_path equals the model path from the root - dotted keys, [i] for the i-th configuration of a list (an error "
    "about a scalar list item may name the list or the item), [key] for a dict entry; str(err) starts with that "
    "path and contains the friendly name when one is set. An assignment the reference rejects must raise. "
    "Non-trivial = path depth >= 2 or inside a list item / dict entry, and a value that is not a string."
)
ASSUMPTIONS = [
    "read-only members (virtual fields without setter, instance methods) are excluded: refusing to assign them is "
    "not a rejection of a value (C06 covers them)",
    "for document / tree routes the value first passes to_python, whose leniency is not claimed; only failures are judged",
]
REQUIRED = ["target:leaf", "target:item-leaf", "target:dict-entry", "target:list-item", "target:subconfig", "route:setattr",
            "route:setitem", "route:ctor", "route:load_tree", "route:loads", "route:container", "route:inplace", "depth>=2", "raised",
            "target:include@depth0", "target:include@depth1", "target:include@depth2", "failed-reoffer", "held-reoffered:tuple", "held-reoffered:rejected", "held-reoffered:accepted", "takeover", "validator:odd-exception-type", "offered-instance"]
LEVEL_TEXT = (
    "Generated schemas x targets x rejected values x routes; the raised exception's type and reference path are "
    "compared with a model path computed from the spec; kills mutants that re-raise the field's own exception, "
    "drop the parent from the path or compute list indices wrongly."
)
LEVEL_NOTE = "Trusted: CPython, Hypothesis, vlib/refmodel.py (to decide that a value is a rejected one)."
TECHNIQUE = "property-based testing (Hypothesis): generated rejected values through every route, model path as oracle"


def selftest():
    refmodel.selftest()


def budget(tier):
    if tier == "quick":
        return {"cases": 700, "shards": 3}
    return {"cases": 5000, "shards": 16}


def _targets(node, path=()):
    out = []
    for c in node["children"]:
        k, kind = c["key"], c["kind"]
        p = path + (k,)
        if kind in ("schema", "configtype"):
            out.append(("subconfig", p, c))
            out.extend(_targets(c, p))
        elif kind == "schemalist":
            for ip, inode in ops.spec_leaves(c):
                if inode["kind"] not in ("schemalist", "featureflag", "include"):
                    out.append(("item-leaf", p, c, ip, inode))
        elif kind in ("virtual", "method"):
            continue
        else:
            out.append(("leaf", p, c))
            if kind == "dict" and (c.get("keyf") or c.get("valuef")):
                out.append(("dict-entry", p, c))
            if kind == "list" and c.get("item") and c["item"]["kind"] != "any":  # (items of a list of AnyField are not validated)
                out.append(("list-item", p, c))
    return out


def _relax(node, keep, path=()):
    """Only the target keeps its 'required' flag: otherwise the final validate() of a load may fail for an
    unrelated required field and the error would (rightly) name that one."""
    kids = []
    for c in node["children"]:
        p = path + (c["key"],)
        if c["kind"] in ("schema", "configtype", "schemalist"):
            c = _relax(c, keep, p + (("[]",) if c["kind"] == "schemalist" else ()))
            if c.get("req") and p != keep:
                c = dict(c, req=False)
        elif c.get("req") and p != keep:
            c = dict(c, req=False)
        kids.append(c)
    return dict(node, children=kids)


def strategy(tier):
    def pick(spec):
        targets = _targets(spec)
        if not targets:
            return st.just({"spec": spec, "target": None})

        def for_target(i):
            t = targets[i]
            kind = t[0]
            if kind == "leaf":
                val = st.one_of(specs.values(t[2]), specs.junk())
                if t[2].get("validator") == "v_not7":
                    val = st.one_of(val, st.sampled_from([7, "7", 7.0, "7.0"]))
                if t[2]["kind"] == "float":
                    val = st.one_of(val, val, st.sampled_from([10 ** 400, -10 ** 400, "1" + "0" * 400]))  # beyond the float range
                routes = ["setattr", "setitem", "ctor", "load_tree", "loads", "container"]
                if t[2]["kind"] == "include":
                    # a document load resolves (and rejects) include values before anything else, at every depth
                    routes = ["loads", "loads", "loads", "load_tree", "setattr", "setitem"]
            elif kind == "item-leaf":
                val = st.one_of(specs.values(t[4]), specs.junk(), specs.junk())
                if t[4].get("validator") == "v_not7":
                    val = st.one_of(val, st.sampled_from([7, "7", 7.0]))
                if t[4]["kind"] == "float":
                    val = st.one_of(val, val, st.sampled_from([10 ** 400, -10 ** 400]))
                routes = ["item-setattr", "item-setattr", "item-setattr", "append", "insert", "setitem-index", "setitem-slice", "setitem-slice", "assign-list", "load_tree", "loads", "extend"]
            elif kind == "dict-entry":
                vf = t[2].get("valuef")
                val = st.one_of(specs.values(vf) if vf else specs.junk(), specs.junk())
                routes = ["setkey", "assign-dict", "update", "setdefault", "load_tree", "loads"]
            elif kind == "list-item":
                val = st.one_of(specs.values(t[2]["item"]), specs.junk())
                if t[2]["item"].get("req"):
                    val = st.one_of(val, st.none())  # a missing (None) item where the item field is required
                # in-place edits of a typed *scalar* list are not among the routes the statement lists
                routes = ["assign-list", "load_tree", "loads"]
            else:
                val = st.one_of(specs.junk().filter(lambda v: not isinstance(v, dict)), ops.subtree(t[2]))
                routes = ["setattr", "setitem", "load_tree", "loads"]
            return st.fixed_dictionaries({
                "spec": st.just(spec), "target": st.just(i), "value": val, "route": st.sampled_from(routes), "fmt": st.sampled_from(trees.FORMATS),
                "n_before": st.integers(0, 3) if kind != "item-leaf" else st.integers(1, 4), "index": st.integers(0, 3), "dkey": (st.sampled_from([(2, 2), (5,), (), 5, ("a", "b", "c"), 1.5, True, "a", "Key", b"k"]) if kind == "dict-entry" and not t[2].get("keyf")
                         else st.sampled_from(["a", "k1", "Key", "x.y", "", "1"])),
                "good": st.lists(specs.values(t[2]["item"]) if kind == "list-item" else st.none(), min_size=3, max_size=3),
                "built_by": st.sampled_from(["assign", "load_tree"]),
                "reoffer": st.sampled_from([False, False, True, "tuple"]),
                "shift": st.lists(st.sampled_from(["del0", "pop", "insert0", "reverse", "append", "swap"]), min_size=0 if kind != "item-leaf" else 1, max_size=3),
            })
        # choose the target class first: plain leaves outnumber everything else by far
        by_kind = {}
        for i, t in enumerate(targets):
            by_kind.setdefault("leaf:include" if t[0] == "leaf" and t[2]["kind"] == "include" else t[0], []).append(i)
        return st.sampled_from(sorted(by_kind)).flatmap(lambda k: st.sampled_from(by_kind[k])).flatmap(for_target)
    from .c16 import _with_includes  # an include field at the root and in every nested schema, at every depth
    return worlds.schema_spec(tier, allow=("schema", "schema", "configtype", "schemalist", "virtual", "method", "featureflag")).map(_with_includes).map(_odd_validators).flatmap(pick)


def _odd_validators(node, counter=None):
    """Every other custom validator rejects with an exception type of its own choosing (KeyError, RuntimeError, ...)."""
    counter = counter if counter is not None else [0]
    kids = []
    for c in node["children"]:
        if "children" in c:
            c = _odd_validators(c, counter)
        elif c.get("validator") in ("v_not42", "v_ok", None) and c["kind"] in ("int", "float", "str", "port", "any", "host", "url", "loglevel", "appmode", "ipv4"):
            counter[0] += 1
            if counter[0] % 2:
                c = dict(c, validator="v_not7")
        kids.append(c)
    return dict(node, children=kids)


def _nest(path, value):
    for key in reversed(path):
        value = {key: value}
    return value


def exhaustive(tier):
    """A typed dict / typed list that one configuration holds is taken over by another configuration of the SAME schema
    at a different path (two items of a list of configurations, two fields of one config type); then an entry / item is
    rejected in the target. The error must name the target's path."""
    for place in ("list-items", "configtype-fields", "nested-list-items"):
        for container in ("dict", "list"):
            for how in ("assign", "assign-copy"):
                for route in (("setkey", "update", "setdefault") if container == "dict" else ("append", "insert", "setitem", "extend")):
                    for src, dst in ((0, 2), (2, 0), (1, 2)):
                        yield {"mode": "takeover", "place": place, "container": container, "how": how, "route": route, "src": src, "dst": dst}
    for place in ("root", "nested", "list-item", "ct-list-item"):
        for route in ("load_tree", "loads-json", "loads-yaml", "ctor", "setitem"):
            yield {"mode": "none-item", "place": place, "route": route}
    for exc in ("key", "runtime", "weird", "lookup", "zero", "assert", "bare", "overflow"):
        for place in ("root", "nested", "list-item"):
            for route in ("setattr", "setitem", "ctor", "load_tree", "loads-json"):
                yield {"mode": "odd-rejection", "exc": exc, "place": place, "route": route}
    for configtype in (False, True):
        for place in ("root", "nested"):
            for where in ("top", "deeper"):
                for route in ("assign", "ctor", "append", "insert", "setitem", "extend"):
                    yield {"mode": "offered-instance", "configtype": configtype, "place": place, "where": where, "route": route}
    # typed dicts whose keys are not strings (tuples of every length, numbers, booleans, bytes, None): the entry is named
    # by str(key), through every route and placement
    for key in ("tuple2", "tuple1", "tuple0", "tuple3", "int", "float", "bool", "bytes", "none", "frozenset", "str", "str-dotted"):
        for route in ("setkey", "update", "setdefault", "assign-dict", "load_tree", "setitem-path"):
            for place in ("root", "nested", "list-item"):
                yield {"mode": "odd-dict-key", "key": key, "route": route, "place": place}
    # ONE config type (made from a schema that has a key of its own, from a sub-schema of a template, or from a bare schema)
    # declared under several field keys: a rejection names the field key it happened under, in every state of the sub-config
    for origin in ("keyed-schema", "template-subschema", "bare-schema"):
        for place in ("root", "nested"):
            for state in ("default-created", "after-load_tree", "after-map-assign", "after-loads-json"):
                for route in ("setattr", "setitem-path", "load_tree", "loads-yaml"):
                    yield {"mode": "keyed-configtype", "origin": origin, "place": place, "state": state, "route": route}
    # an include field at every depth whose value is rejected while the document is loaded (the named file is missing, is a
    # directory, is not text of the format; the value is not a string), per format and load route
    for depth in (0, 1, 2, 3):
        for cause in ("missing-file", "directory", "not-a-string", "not-the-format"):
            for fmt in ("json", "yaml", "xml", "bson", "pickle"):
                for route in ("loads", "load-file"):
                    yield {"mode": "include-rejection", "depth": depth, "cause": cause, "fmt": fmt, "route": route}
    # configurations a list HOLDS are offered again (in every order, as a list or a tuple, through every assignment
    # route) in a whole-list assignment that is rejected or accepted; a value rejected on a held item afterwards names
    # the index the item has in the list the configuration holds
    import itertools
    for configtype in (False, True):
        for place in ("root", "nested"):
            for form in ("list", "tuple"):
                for route in ("setattr", "setitem-path", "slice-assign", "iadd", "extend"):
                    for perm in itertools.permutations(range(3)):
                        for bad_at in (None, 0, 1, 3):
                            yield {"mode": "held-reoffered", "configtype": configtype, "place": place, "form": form, "route": route, "perm": list(perm), "bad_at": bad_at}


def _offered_instance_case(case, R):
    """Configuration INSTANCES (not maps) are offered to a list of configurations; one of them fails its own
    validation (a required field is unset, at the top of the item or one level down)."""
    cc = sandbox._state["cc"]
    item = cc.Schema()
    item.name = cc.StringField(required=True)
    item.port = cc.IntField(default=1)
    item.tls.cert = cc.StringField(required=True)
    Item = cc.make_type(item, "Srv", module=__name__) if case["configtype"] else item
    schema = cc.Schema()
    place = case["place"]
    if place == "root":
        schema.servers = cc.ListField(Item)
        prefix = "servers"
        owner = lambda cfg: cfg
    else:
        schema.site.servers = cc.ListField(Item)
        prefix = "site.servers"
        owner = lambda cfg: cfg.site
    cfg = schema()
    owner(cfg).servers = [{"name": "a", "tls": {"cert": "a.pem"}}, {"name": "b", "tls": {"cert": "b.pem"}}]
    R.label("offered-instance")
    R.nontrivial = True

    def make(ok):
        inst = Item()
        inst.name = "ok"
        inst.tls.cert = "c.pem"
        if not ok:  # a required field is unset again (public reset)
            if case["where"] == "top":
                cc.reset_value(inst, "name")
            else:
                cc.reset_value(inst.tls, "cert")
        return inst
    bad_field = "name" if case["where"] == "top" else "tls.cert"
    lst = owner(cfg).servers
    route = case["route"]
    if route == "assign":
        want_i = 1
        action = lambda: setattr(owner(cfg), "servers", [make(True), make(False), make(True)])
    elif route == "ctor" and place == "root":
        want_i = 2
        action = lambda: schema(servers=[make(True), make(True), make(False)])
    elif route == "append":
        want_i = 2
        action = lambda: lst.append(make(False))
    elif route == "insert":
        want_i = 1
        action = lambda: lst.insert(1, make(False))
    elif route == "setitem":
        want_i = 0
        action = lambda: lst.__setitem__(0, make(False))
    elif route == "extend":
        want_i = 3
        action = lambda: lst.extend([make(True), make(False)])
    else:
        return
    want = "%s[%d].%s" % (prefix, want_i, bad_field)
    try:
        action()
        err = None
    except Exception as exc:
        err = exc
    site = "offered-instance:%s:%s" % (route, case["where"])
    if not R.check(err is not None, "must-raise", site, "an item configuration with an unset required field was accepted"):
        return
    if not R.check(isinstance(err, cc.ValidationError), "type", site + ":" + type(err).__name__, lambda: "raised %r" % (err,)):
        return
    got = err.ref_path
    R.check(got == want, "path", site, lambda: "offered item instance with %s unset: error names %r, the offending field is %r" % (bad_field, got, want))
    R.check(str(err).startswith(got), "text", "starts-with-path", lambda: "message %r does not start with the path %r" % (str(err)[:120], got))


def _odd_dict_key_case(case, R):
    cc = sandbox._state["cc"]
    key = {"tuple2": (2, 2), "tuple1": (5,), "tuple0": (), "tuple3": ("a", "b", "c"), "int": 5, "float": 1.5, "bool": True, "bytes": b"k", "none": None,
           "frozenset": frozenset([1]), "str": "Key", "str-dotted": "x.y"}[case["key"]]
    route, place = case["route"], case["place"]
    schema = cc.Schema()
    if place == "root":
        schema.limits = cc.DictField(None, cc.IntField(max=10))
        prefix, owner = "limits", (lambda c: c)
    elif place == "nested":
        schema.a.b.limits = cc.DictField(None, cc.IntField(max=10))
        prefix, owner = "a.b.limits", (lambda c: c.a.b)
    else:
        item = cc.Schema()
        item.limits = cc.DictField(None, cc.IntField(max=10))
        schema.rows = cc.ListField(item)
        prefix, owner = "rows[1].limits", (lambda c: c.rows[1])
    cfg = schema()
    if place == "list-item":
        cfg.rows = [{}, {}]
    R.label("odd-dict-key", "odd-dict-key:" + case["key"])
    R.nontrivial = not isinstance(key, str)
    want = "%s[%s]" % (prefix, str(key))
    try:
        if route in ("setkey", "update", "setdefault"):
            owner(cfg).limits = {}
            d = owner(cfg).limits
            if route == "setkey":
                d[key] = 99
            elif route == "update":
                d.update({key: 99})
            else:
                d.setdefault(key, 99)
        elif route == "assign-dict":
            owner(cfg).limits = {key: 99}
        elif route == "setitem-path":
            if place == "list-item":
                cfg.rows[1]["limits"] = {key: 99}
            else:
                cfg[prefix] = {key: 99}
        else:
            tree = {"limits": {key: 99}}
            cfg.load_tree(tree if place == "root" else {"a": {"b": tree}} if place == "nested" else {"rows": [{}, tree]})
        err = None
    except Exception as exc:
        err = exc
    site = "odd-dict-key:%s" % route
    if not R.check(err is not None, "must-raise", site, "99 was accepted by IntField(max=10)"):
        return
    if not R.check(isinstance(err, cc.ValidationError), "type", site + ":" + type(err).__name__, lambda: "key %r: rejection surfaced as %r" % (key, err)):
        return
    got = err.ref_path
    R.check(got == want, "path", site, lambda: "entry with the key %r rejected via %s: error names %r, the offending entry is %r" % (key, route, got, want))
    try:
        text = str(err)
    except Exception as exc:
        R.fail("text", site + ":str-raises", "str(err) raised %r" % (exc,))
        return
    R.check(text.startswith(got or "\x00"), "text", "starts-with-path", lambda: "message %r does not start with the path %r" % (text[:120], got))


def _keyed_configtype_case(case, R):
    cc = sandbox._state["cc"]
    origin, place, state, route = case["origin"], case["place"], case["state"], case["route"]
    if origin == "keyed-schema":
        server = cc.Schema(key="server")
    elif origin == "template-subschema":
        templates = cc.Schema()
        server = templates.server
    else:
        server = cc.Schema()
    server.host = cc.HostnameField(default="localhost")
    server.port = cc.PortField(default=80, name="Port")
    server.limits.max = cc.IntField(default=10)
    server.tags = cc.DictField(cc.StringField(), cc.IntField())
    T = cc.make_type(server, "KeyedServer", module=__name__)
    schema = cc.Schema()
    holder = schema if place == "root" else schema.app
    holder.primary = T
    holder.backup = T
    holder.name = cc.StringField(default="demo")
    prefix = "" if place == "root" else "app."
    wrap = (lambda t: t) if place == "root" else (lambda t: {"app": t})
    R.label("keyed-configtype", "keyed-configtype:" + origin)
    R.nontrivial = True
    for which in ("primary", "backup"):
        for leaf, bad, sub_tree in (("port", "not a port", {"port": "not a port"}), ("limits.max", "many", {"limits": {"max": "many"}}), ("tags[k]", "v", {"tags": {"k": "v"}})):
            cfg = schema()
            owner = cfg if place == "root" else cfg.app
            try:
                if state == "after-load_tree":
                    cfg.load_tree(wrap({which: {"host": "h.example"}}))
                elif state == "after-map-assign":
                    setattr(owner, which, {"host": "h.example"})
                elif state == "after-loads-json":
                    cfg.loads(cc.ConfigFormat.get("json").dumps(cfg, wrap({which: {"host": "h.example"}, "name": "x"})), "json")
            except Exception as exc:
                R.fail("crash", "keyed-configtype:setup", "valid set-up raised %r" % (exc,))
                return
            want = "%s%s.%s" % (prefix, which, leaf)
            try:
                sub = getattr(owner, which)
                if route == "setattr":
                    if leaf == "port":
                        sub.port = bad
                    elif leaf == "limits.max":
                        sub.limits.max = bad
                    else:
                        sub.tags = {"k": bad}
                elif route == "setitem-path":
                    cfg["%s%s.%s" % (prefix, which, leaf.replace("[k]", ""))] = bad if leaf != "tags[k]" else {"k": bad}
                elif route == "load_tree":
                    cfg.load_tree(wrap({which: sub_tree}))
                else:
                    cfg.loads(cc.ConfigFormat.get("yaml").dumps(cfg, wrap({which: sub_tree})), "yaml")
                err = None
            except Exception as exc:
                err = exc
            site = "keyed-configtype:%s:%s" % (route, state)
            if not R.check(err is not None, "must-raise", site, "the bad value for %s was accepted" % want):
                continue
            if not R.check(isinstance(err, cc.ValidationError), "type", site + ":" + type(err).__name__, lambda: "raised %r" % (err,)):
                continue
            got = err.ref_path
            R.check(got == want, "path", site, lambda: "config type from a %s declared as %sprimary and %sbackup (%s): error names %r, the offending field is %r" % (origin, prefix, prefix, state, got, want))
            R.check(str(err).startswith(got or "\x00"), "text", "starts-with-path", lambda: "message %r does not start with the path %r" % (str(err)[:120], got))


def _include_rejection_case(case, R):
    cc = sandbox._state["cc"]
    depth, cause, fmt, route = case["depth"], case["cause"], case["fmt"], case["route"]
    keys = ["outer", "middle", "inner"][:depth]
    schema = cc.Schema()
    node = schema
    for k in keys:
        node = getattr(node, k)
        node.label = cc.StringField(default="l")
    node.include = cc.IncludeField()
    schema.other = cc.IntField(default=1)
    want = ".".join(keys + ["include"])
    R.label("include-rejection", "include-rejection@depth%d" % depth)
    R.nontrivial = depth >= 2
    with sandbox.CaseDir() as d:
        if cause == "missing-file":
            value = os.path.join(d, "no-such-file." + fmt)
        elif cause == "directory":
            value = os.path.join(d, "a-directory")
            os.makedirs(value)
        elif cause == "not-the-format":
            value = os.path.join(d, "garbage." + fmt)
            with open(value, "wb") as fp:
                fp.write(b"\x00\xff{[<not a document of any format")
        else:
            value = 5
        tree = {"include": value}
        for k in reversed(keys):
            tree = {k: tree}
        cfg = schema()
        doc = cc.ConfigFormat.get(fmt).dumps(cfg, tree)
        try:
            if route == "loads":
                cfg.loads(doc, fmt)
            else:
                target = os.path.join(d, "main." + fmt)
                with open(target, "wb") as fp:
                    fp.write(doc)
                cfg.load(target, fmt)
            err = None
        except Exception as exc:
            err = exc
    site = "include-rejection:%s:%s" % (cause, route)
    if err is None:
        R.label("include-rejection:accepted")  # (whether this value is rejected at all is C18's business)
        return
    if not R.check(isinstance(err, cc.ValidationError), "type", site + ":" + type(err).__name__, lambda: "rejection surfaced as %s: %r" % (type(err).__name__, err)):
        return
    got = err.ref_path
    R.check(got == want, "path", site, lambda: "%s document, include field at depth %d rejected (%s): error names %r, the offending field is %r" % (fmt, depth, cause, got, want))
    R.check(str(err).startswith(got or "\x00"), "text", "starts-with-path", lambda: "message %r does not start with the path %r" % (str(err)[:120], got))


def _held_reoffered_case(case, R):
    cc = sandbox._state["cc"]
    item = cc.Schema()
    item.name = cc.StringField(required=True)
    item.port = cc.IntField(default=1)
    item.tls.level = cc.IntField(default=1)
    Item = cc.make_type(item, "HeldSrv", module=__name__) if case["configtype"] else item
    schema = cc.Schema()
    if case["place"] == "root":
        schema.servers = cc.ListField(Item)
        prefix = "servers"
        owner = lambda cfg: cfg
    else:
        schema.site.group.servers = cc.ListField(Item)
        prefix = "site.group.servers"
        owner = lambda cfg: cfg.site.group
    cfg = schema()
    owner(cfg).servers = [{"name": "a"}, {"name": "b"}, {"name": "c"}]
    held = list(owner(cfg).servers)
    R.label("held-reoffered", "held-reoffered:" + case["form"])
    R.nontrivial = True
    offered = [held[k] for k in case["perm"]]
    if case["bad_at"] is not None:
        offered.insert(case["bad_at"], {"name": "bad", "port": "not a number"})
    if case["form"] == "tuple":
        offered = tuple(offered)
    route = case["route"]
    lst = owner(cfg).servers
    try:
        if route == "setattr":
            owner(cfg).servers = offered
        elif route == "setitem-path":
            cfg[prefix] = offered
        elif route == "slice-assign":
            lst[:] = offered
        elif route == "iadd":
            lst += offered
        else:
            lst.extend(offered)
        R.label("held-reoffered:accepted")
    except Exception as exc:
        R.label("held-reoffered:rejected")
        if case["bad_at"] is not None and route in ("setattr", "setitem-path"):
            if R.check(isinstance(exc, cc.ValidationError), "type", "held-reoffered:" + type(exc).__name__, lambda: "raised %r" % (exc,)):
                want = "%s[%d].port" % (prefix, case["bad_at"])
                R.check(exc.ref_path == want, "path", "held-reoffered:offer:" + route, lambda: "rejected offer: error names %r, the offending field is %r" % (exc.ref_path, want))
    now = list(owner(cfg).servers)
    for inst in held:
        positions = [n for n, x in enumerate(now) if x is inst]
        if len(positions) != 1:
            continue  # not held any more, or held twice (then either index identifies it)
        for leaf, bad in (("port", "bad"), ("tls.level", [1])):
            want = "%s[%d].%s" % (prefix, positions[0], leaf)
            try:
                target = inst if leaf == "port" else inst.tls
                setattr(target, leaf.split(".")[-1], bad)
                err = None
            except Exception as exc:
                err = exc
            site = "held-reoffered:%s:%s" % (route, "after-rejected-offer" if now == held else "after-accepted-offer")
            if not R.check(err is not None, "must-raise", site, "a non-number was accepted by an IntField"):
                continue
            if not R.check(isinstance(err, cc.ValidationError), "type", site + ":" + type(err).__name__, lambda: "raised %r" % (err,)):
                continue
            got = err.ref_path
            R.check(got == want, "path", site, lambda: "the held items were offered again as %s %r%s via %s; a bad %s on the item now at index %d is reported as %r, not %r" % (
                case["form"], case["perm"], "" if case["bad_at"] is None else " with a bad entry at %d" % case["bad_at"], route, leaf, positions[0], got, want))
            R.check(str(err).startswith(got), "text", "starts-with-path", lambda: "message %r does not start with the path %r" % (str(err)[:120], got))


def _odd_rejection_case(case, R):
    """Rejections whose underlying exception is neither ValueError nor TypeError: a custom validator that raises KeyError /
    RuntimeError / AssertionError / an application exception / with no message at all, and an integer beyond the float range."""
    cc = sandbox._state["cc"]
    from ..refmodel import WeirdError
    exc_kind = case["exc"]

    def rule(cfg, value):
        if value == 7:
            if exc_kind == "assert":
                assert value != 7
            if exc_kind == "bare":
                raise ValueError
            raise {"key": KeyError, "runtime": RuntimeError, "weird": WeirdError, "lookup": LookupError, "zero": ZeroDivisionError}[exc_kind]("seven is not allowed")
        return value
    schema = cc.Schema()
    make = (lambda: cc.FloatField()) if exc_kind == "overflow" else (lambda: cc.IntField(validator=rule))
    bad = 10 ** 400 if exc_kind == "overflow" else 7
    place = case["place"]
    if place == "root":
        schema.f = make()
        want, tree = "f", {"f": bad}
    elif place == "nested":
        schema.a.b.f = make()
        want, tree = "a.b.f", {"a": {"b": {"f": bad}}}
    else:
        item = cc.Schema()
        item.f = make()
        item.name = cc.StringField(default="n")
        schema.rows = cc.ListField(item)
        want, tree = "rows[1].f", {"rows": [{"name": "a"}, {"name": "b", "f": bad}]}
    cfg = schema()
    route = case["route"]
    R.label("odd-rejection")
    R.nontrivial = True
    try:
        if route == "load_tree":
            cfg.load_tree(tree)
        elif route == "loads-json":
            if exc_kind == "overflow":
                cfg.loads(('{"f": 1%s}' % ("0" * 400)).encode() if place == "root" else cc.ConfigFormat.get("pickle").dumps(cfg, tree), "json" if place == "root" else "pickle")
            else:
                cfg.loads(cc.ConfigFormat.get("json").dumps(cfg, tree), "json")
        elif route == "ctor":
            if place != "root":
                return
            schema(f=bad)
        elif route in ("setattr", "setitem"):
            if place == "list-item":
                cfg.rows = [{"name": "a"}, {"name": "b"}]
                if route == "setattr":
                    cfg.rows[1].f = bad
                else:
                    cfg.rows[1]["f"] = bad
            elif route == "setattr":
                owner = cfg if place == "root" else cfg.a.b
                owner.f = bad
            else:
                cfg[want] = bad
        err = None
    except BaseException as exc:  # AssertionError and friends included
        err = exc
    site = "odd-rejection:%s:%s" % (exc_kind, route)
    if not R.check(err is not None, "must-raise", site, "the rejected value was accepted"):
        return
    if not R.check(isinstance(err, cc.ValidationError), "type", site + ":" + type(err).__name__, lambda: "rejection surfaced as %s: %r" % (type(err).__name__, err)):
        return
    got = err.ref_path
    R.check(got == want, "path", site, lambda: "error names %r, the offending field is %r" % (got, want))
    try:
        text = str(err)
    except Exception as exc:
        R.fail("text", site + ":str-raises", "str(err) raised %r" % (exc,))
        return
    R.check(text.startswith(got), "text", "starts-with-path", lambda: "message %r does not start with the path %r" % (text[:120], got))


def _none_item_case(case, R):
    """A typed list whose item field is required is offered a list that contains None."""
    cc = sandbox._state["cc"]
    schema = cc.Schema()
    place = case["place"]
    field = lambda: cc.ListField(cc.IntField(required=True))
    if place == "root":
        schema.ports = field()
        path, tree = "ports", {"ports": [1, None, 3]}
    elif place == "nested":
        schema.net.inner.ports = field()
        path, tree = "net.inner.ports", {"net": {"inner": {"ports": [1, None, 3]}}}
    else:
        item = cc.Schema()
        item.ports = field()
        item.name = cc.StringField(default="n")
        schema.servers = cc.ListField(cc.make_type(item, "Node2", module=__name__) if place == "ct-list-item" else item)
        path, tree = "servers[1].ports", {"servers": [{"name": "a"}, {"name": "b", "ports": [1, None, 3]}]}
    cfg = schema()
    route = case["route"]
    R.label("none-item")
    R.nontrivial = True
    try:
        if route == "load_tree":
            cfg.load_tree(tree)
        elif route in ("loads-json", "loads-yaml"):
            fmt = route.split("-")[1]
            cfg.loads(cc.ConfigFormat.get(fmt).dumps(cfg, tree), fmt)
        elif route == "ctor":
            schema(**tree)
        elif route == "setitem":
            if place in ("list-item", "ct-list-item"):
                cfg.servers = [{"name": "a"}, {"name": "b"}]
                cfg.servers[1].ports = [1, None, 3]
            else:
                cfg[path] = [1, None, 3]
        else:
            return
        err = None
    except Exception as exc:
        err = exc
    site = "none-item:%s:%s" % (place, route)
    if not R.check(err is not None, "must-raise", site, "None was accepted as an item of a list whose item field is required"):
        return
    if not R.check(isinstance(err, cc.ValidationError), "type", site + ":" + type(err).__name__, lambda: "raised %r" % (err,)):
        return
    got = err.ref_path
    R.check(got == path or got.startswith(path + "["), "path", site, lambda: "None offered as an item of %s: error names %r" % (path, got))
    R.check(str(err).startswith(got), "text", "starts-with-path", lambda: "message %r does not start with the path %r" % (str(err)[:120], got))


def _takeover_case(case, R):
    cc = sandbox._state["cc"]
    item = cc.Schema()
    item.name = cc.StringField(default="n")
    item.limits = cc.DictField(cc.StringField(), cc.IntField(max=10))
    item.ports = cc.ListField(cc.IntField(max=10))
    schema = cc.Schema()
    place = case["place"]
    if place == "configtype-fields":
        T = cc.make_type(item, "Node", module=__name__)
        schema.primary = T
        schema.backup = T
        schema.spare = T
        cfg = schema()
        nodes = [cfg.primary, cfg.backup, cfg.spare]
        paths = ["primary", "backup", "spare"]
    elif place == "list-items":
        schema.servers = cc.ListField(item)
        cfg = schema()
        cfg.servers = [{"name": "a"}, {"name": "b"}, {"name": "c"}]
        nodes = list(cfg.servers)
        paths = ["servers[%d]" % i for i in range(3)]
    else:
        schema.dc.east.servers = cc.ListField(item)
        cfg = schema()
        cfg.dc.east.servers = [{"name": "a"}, {"name": "b"}, {"name": "c"}]
        nodes = list(cfg.dc.east.servers)
        paths = ["dc.east.servers[%d]" % i for i in range(3)]
    src, dst = nodes[case["src"]], nodes[case["dst"]]
    R.label("takeover")
    R.nontrivial = True
    if case["container"] == "dict":
        src.limits = {"cpu": 1, "mem": 2}
        dst.limits = src.limits if case["how"] == "assign" else src.limits.copy()
        target = dst.limits
        want = "%s.limits[mem]" % paths[case["dst"]]
        action = {"setkey": lambda: target.__setitem__("mem", 99), "update": lambda: target.update({"mem": 99}),
                  "setdefault": lambda: target.setdefault("mem2", 99)}[case["route"]]
        if case["route"] == "setdefault":
            want = "%s.limits[mem2]" % paths[case["dst"]]
    else:
        src.ports = [1, 2]
        dst.ports = src.ports if case["how"] == "assign" else src.ports.copy()
        target = dst.ports
        want = "%s.ports" % paths[case["dst"]]
        action = {"append": lambda: target.append(99), "insert": lambda: target.insert(0, 99), "setitem": lambda: target.__setitem__(0, 99),
                  "extend": lambda: target.extend([3, 99])}[case["route"]]
    try:
        action()
        err = None
    except Exception as exc:
        err = exc
    site = "takeover:%s:%s" % (case["container"], case["route"])
    if not R.check(err is not None, "must-raise", site, "a value above the item field's maximum was accepted"):
        return
    if case["container"] == "list":
        # in-place edits of a typed scalar list are not among the routes the statement lists: only a path, when the
        # library does give one, must not point into another configuration
        if isinstance(err, cc.ValidationError):
            got = err.ref_path
            R.check(got.startswith(want), "path", site, lambda: "rejected item in %s: error names %r" % (want, got))
        return
    if not R.check(isinstance(err, cc.ValidationError), "type", site + ":" + type(err).__name__, lambda: "raised %r" % (err,)):
        return
    got = err.ref_path
    R.check(got == want, "path", site, lambda: "rejected entry in the dict that %s took over from %s: error names %r, the offending entry is %r" % (
        paths[case["dst"]], paths[case["src"]], got, want))
    R.check(str(err).startswith(got), "text", "starts-with-path", lambda: "message %r does not start with the path %r" % (str(err)[:120], got))


def run_case(case, R):
    if case.get("mode") == "takeover":
        return _takeover_case(case, R)
    if case.get("mode") == "odd-dict-key":
        return _odd_dict_key_case(case, R)
    if case.get("mode") == "keyed-configtype":
        return _keyed_configtype_case(case, R)
    if case.get("mode") == "include-rejection":
        return _include_rejection_case(case, R)
    if case.get("mode") == "held-reoffered":
        return _held_reoffered_case(case, R)
    if case.get("mode") == "offered-instance":
        return _offered_instance_case(case, R)
    if case.get("mode") == "none-item":
        return _none_item_case(case, R)
    if case.get("mode") == "odd-rejection":
        return _odd_rejection_case(case, R)
    cc = sandbox._state["cc"]
    spec = case["spec"]
    if case["target"] is None:
        return
    targets = _targets(spec)
    t = targets[case["target"] % len(targets)]
    kind = t[0]
    keep = tuple(t[1]) + (("[]",) + tuple(t[3]) if kind == "item-leaf" else ())
    spec = _relax(spec, keep)
    t = _targets(spec)[case["target"] % len(targets)]
    R.label("target:" + kind)
    if (t[4] if kind == "item-leaf" else t[2]).get("validator") == "v_not7":
        R.label("validator:odd-exception-type")
    if kind == "leaf" and t[2]["kind"] == "include":
        R.label("target:include@depth%d" % min(len(t[1]) - 1, 2))
    ctx = specs.ref_ctx()
    route = case["route"]
    value = specs.realize(case["value"])
    with sandbox.CaseDir() as d:
        world = worlds.World(cc, spec)
        keyfile = os.path.join(d, "key")
        cfg = world.schema(key_filename=keyfile)
        fmt = case["fmt"]
        must_raise = False
        name = None
        alt_paths = ()
        history = ""

        def load(tree, how):
            if how == "loads" and ops.is_plain(tree, fmt):
                R.label("route:loads")
                cfg.loads(cc.ConfigFormat.get(fmt).dumps(cfg, tree), fmt)
            else:
                R.label("route:load_tree")
                cfg.load_tree(tree)

        try:
            if kind == "leaf":
                _, path, node = t
                name = node.get("name")
                verdict = refmodel.ref(node, value, ctx)
                if verdict[0] != REJ:
                    return
                want = ".".join(path)
                if node["kind"] in ("dict",) and isinstance(value, dict):
                    alt_paths = tuple("%s[%s]" % (want, k) for k in value)
                if node["kind"] == "list" and isinstance(value, (list, tuple)):
                    alt_paths = tuple("%s[%d]" % (want, i) for i in range(len(value)))
                if route == "setattr":
                    must_raise = True
                    R.label("route:setattr")
                    action = lambda: ops.set_via(cfg, path, value, "setattr")
                elif route == "setitem":
                    must_raise = True
                    R.label("route:setitem")
                    action = lambda: ops.set_via(cfg, path, value, "setitem")
                elif route == "ctor":
                    if len(path) != 1:
                        route = "container"
                    else:
                        must_raise = True
                        R.label("route:ctor")
                        action = lambda: world.schema(key_filename=keyfile, **{path[0]: value})
                if route == "container":
                    if len(path) < 2:
                        return
                    R.label("route:container")
                    action = lambda: ops.set_via(cfg, path[:-1], {path[-1]: value}, "setattr")
                elif route in ("load_tree", "loads"):
                    action = lambda: load(_nest(path, value), route)
            elif kind == "subconfig":
                _, path, node = t
                want = ".".join(path)
                if isinstance(value, dict):
                    # a map with one bad leaf somewhere below: the error must name that leaf
                    tree = specs.realize(ops.resolve_tree(node, case["value"], ctx, to_basic=False))
                    # a document load resolves include fields first - but only along a chain of plain nested schemas
                    chain_ok, walk = True, spec
                    for key in path:
                        walk = next(c for c in walk["children"] if c["key"] == key)
                        chain_ok = chain_ok and walk["kind"] == "schema"
                    via_doc = route == "loads" and ops.is_plain(_nest(path, tree), fmt)  # else it falls back to load_tree
                    # (PyYAML writes the keys of a map in sorted order: a YAML document applies them in that order)
                    bad = _first_bad(node, tree, ctx, path, includes_first=(via_doc and chain_ok), sort=(via_doc and fmt == "yaml"))
                    if bad is None:
                        return
                    want, name = bad
                    value = tree
                    alt_paths = ("prefix:" + want,)
                elif isinstance(value, cc.Config) or value is None:
                    return
                else:
                    must_raise = True
                if route == "setattr":
                    R.label("route:setattr")
                    action = lambda: ops.set_via(cfg, path, value, "setattr")
                elif route == "setitem":
                    R.label("route:setitem")
                    action = lambda: ops.set_via(cfg, path, value, "setitem")
                else:
                    action = lambda: load(_nest(path, value), route)
            elif kind == "dict-entry":
                _, path, node = t
                name = None
                vf = node.get("valuef") or {"kind": "any"}
                kf = node.get("keyf") or {"kind": "any"}
                key = case["dkey"]
                if refmodel.ref(kf, key, ctx)[0] != A:
                    return
                if refmodel.ref(vf, value, ctx)[0] != REJ:
                    return
                want = "%s[%s]" % (".".join(path), str(key))
                R.label("route:inplace" if route in ("setkey", "update", "setdefault") else "route:container" if route == "assign-dict" else "route:x")
                if route in ("setkey", "update", "setdefault"):
                    try:
                        ops.set_via(cfg, path, {}, "setattr")
                    except Exception:
                        return
                    dct = worlds.get_path(cfg, path)
                    if not isinstance(dct, cc.DictProxy):
                        return
                    must_raise = True
                    if route == "setkey":
                        action = lambda: dct.__setitem__(key, value)
                    elif route == "update":
                        action = lambda: dct.update({key: value})
                    else:
                        action = lambda: dct.setdefault(key, value)
                elif route == "assign-dict":
                    must_raise = True
                    action = lambda: ops.set_via(cfg, path, {key: value}, "setattr")
                else:
                    action = lambda: load(_nest(path, {key: value}), route)
            elif kind == "list-item":
                _, path, node = t
                name = node.get("name")
                item = node["item"]
                if refmodel.ref(item, value, ctx)[0] != REJ:
                    return
                good = [g for g in (specs.realize(x) for x in case["good"]) if refmodel.ref(item, g, ctx)[0] == A and g is not None][: case["n_before"]]
                want = ".".join(path)
                alt_paths = ("prefix:" + want + "[",)
                R.label("route:inplace" if route in ("append", "insert", "setitem-index") else "route:container" if route == "assign-list" else "route:x")
                if route in ("append", "insert", "setitem-index"):
                    try:
                        ops.set_via(cfg, path, list(good) if good or not node.get("req") else [], "setattr")
                    except Exception:
                        return
                    lst = worlds.get_path(cfg, path)
                    if not isinstance(lst, cc.ListProxy):
                        return
                    must_raise = True
                    if route == "append":
                        action = lambda: lst.append(value)
                    elif route == "insert":
                        action = lambda: lst.insert(case["index"], value)
                    else:
                        if not lst:
                            return
                        action = lambda: lst.__setitem__(case["index"] % len(lst), value)
                elif route == "assign-list":
                    must_raise = True
                    action = lambda: ops.set_via(cfg, path, list(good) + [value], "setattr")
                else:
                    action = lambda: load(_nest(path, list(good) + [value]), route)
            else:  # item-leaf
                _, lpath, lnode, ipath, inode = t
                name = inode.get("name")
                if refmodel.ref(inode, value, ctx)[0] != REJ:
                    return
                n_before = case["n_before"]
                ok_items = [{} for _ in range(n_before)]
                try:
                    if case.get("built_by") == "load_tree":
                        cfg.load_tree(_nest(lpath, list(ok_items)))  # the list came from a document / tree
                        R.label("list-built-by-load")
                    else:
                        ops.set_via(cfg, lpath, list(ok_items), "setattr")
                    lst = worlds.get_path(cfg, lpath)
                except Exception:
                    # items without their required fields cannot be placed: start from an empty list
                    try:
                        ops.set_via(cfg, lpath, [], "setattr")
                        lst = worlds.get_path(cfg, lpath)
                        n_before = 0
                    except Exception:
                        return
                if not isinstance(lst, cc.ListProxy):
                    return
                n_before = len(lst)
                bad_item = _nest(ipath, value)
                R.label("route:inplace" if route in ("item-setattr", "append", "insert", "setitem-index", "setitem-slice", "extend") else "route:container" if route == "assign-list" else "route:x")
                if route == "item-setattr":
                    # the list may have been rearranged in place since its items were loaded
                    for sh in case.get("shift", []):
                        try:
                            if sh == "del0" and len(lst) > 1:
                                del lst[0]
                            elif sh == "pop" and len(lst) > 1:
                                lst.pop()
                            elif sh == "insert0":
                                lst.insert(0, {})
                            elif sh == "append":
                                lst.append({})
                            elif sh == "reverse":
                                lst.reverse()
                            elif sh == "swap" and len(lst) > 1:
                                lst[0], lst[-1] = lst[-1], lst[0]
                            R.label("shifted-items")
                        except Exception:
                            pass
                    if not lst:
                        return
                    i = case["index"] % len(lst)
                    if case.get("reoffer"):
                        # a rejected whole-list assignment that offers the item again (at another position)
                        chosen = lst[i]
                        try:
                            offered = [{} for _ in range((i + 1) % 3)] + [chosen, bad_item]
                            if case["reoffer"] == "tuple":  # (a list field takes lists and tuples alike)
                                offered = tuple(offered)
                            ops.set_via(cfg, lpath, offered, "setattr")
                        except Exception:
                            history = ":after-failed-reoffer"
                            R.label("failed-reoffer")
                        else:
                            # load semantics accepted the map: the list was replaced, the item has moved
                            lst = worlds.get_path(cfg, lpath)
                            i = next(n for n, x in enumerate(lst) if x is chosen)
                    must_raise = True
                    want = "%s[%d].%s" % (".".join(lpath), i, ".".join(ipath))
                    action = lambda: ops.set_via(lst[i], ipath, value, "setattr")
                elif route == "append":
                    want = "%s[%d].%s" % (".".join(lpath), n_before, ".".join(ipath))
                    action = lambda: lst.append(bad_item)
                elif route == "extend":
                    want = "%s[%d].%s" % (".".join(lpath), n_before, ".".join(ipath))
                    action = lambda: lst.extend([bad_item])
                elif route == "insert":
                    i = min(case["index"], n_before)
                    want = "%s[%d].%s" % (".".join(lpath), i, ".".join(ipath))
                    action = lambda: lst.insert(i, bad_item)
                elif route == "setitem-index":
                    if not lst:
                        return
                    i = case["index"] % len(lst)
                    want = "%s[%d].%s" % (".".join(lpath), i, ".".join(ipath))
                    action = lambda: lst.__setitem__(i, bad_item)
                elif route == "setitem-slice":
                    # lst[i:j] = [ok..., bad]: the rejected item was meant for index i + (number of items before it)
                    i = case["index"] % (len(lst) + 1)
                    lead = len(case.get("shift", [])) % 3 if len(lst) else 0  # an empty list: {} alone is not a valid item
                    want = "%s[%d].%s" % (".".join(lpath), i + lead, ".".join(ipath))
                    action = lambda: lst.__setitem__(slice(i, i + 1 + case["n_before"] % 2), [{} for _ in range(lead)] + [bad_item])
                elif route == "assign-list":
                    want = "%s[%d].%s" % (".".join(lpath), n_before, ".".join(ipath))
                    action = lambda: ops.set_via(cfg, lpath, [{} for _ in range(n_before)] + [bad_item], "setattr")
                else:
                    want = "%s[%d].%s" % (".".join(lpath), n_before, ".".join(ipath))
                    action = lambda: load(_nest(lpath, [{} for _ in range(n_before)] + [bad_item]), route)
        except Exception:
            raise

        depth = want.count(".") + want.count("[") + 1
        if depth >= 2:
            R.label("depth>=2")
        try:
            action()
            err = None
        except Exception as exc:
            err = exc
        site = "%s:%s%s" % (kind, route, history)
        if err is None:
            R.label("not-raised")
            if must_raise:
                R.fail("must-raise", site, "%r for %s was accepted although the reference rejects it" % (value, want))
            return
        R.label("raised")
        if (depth >= 2) and not isinstance(value, str):
            R.nontrivial = True
        if not R.check(isinstance(err, cc.ValidationError), "type", "%s:%s" % (site, type(err).__name__),
                       lambda: "rejecting %r for %s raised %s: %r" % (value, want, type(err).__name__, err)):
            return
        R.check(isinstance(err, ValueError), "type", "not-a-valueerror", "ValidationError is not a ValueError")
        try:
            got = err.ref_path
        except Exception as exc:
            R.fail("path", site + ":ref_path-raises", "err.ref_path raised %r" % (exc,))
            return
        target_node = t[4] if kind == "item-leaf" else t[2]
        ok = got == want or got in alt_paths or any(a.startswith("prefix:") and got.startswith(a[7:]) for a in alt_paths)
        if not ok and target_node.get("kind") in ("list", "dict") and got.startswith(want + "["):
            ok = True  # an error about one entry/item of a typed container may name that entry
        R.check(ok, "path", site, lambda: "rejecting %r via %s: error names %r, the offending field is %r" % (value, route, got, want))
        try:
            text = str(err)
        except Exception as exc:
            R.fail("text", site + ":str-raises", "str(err) raised %r" % (exc,))
            return
        R.check(text.startswith(got), "text", "starts-with-path", lambda: "message %r does not start with the path %r" % (text[:120], got))
        if name and ok and got == want:
            R.check(name in text, "text", "friendly-name", lambda: "message %r lacks the friendly name %r" % (text[:160], name))


def _first_bad(node, tree, ctx, path, includes_first=False, sort=False):
    """Path (dotted) and friendly name of the first leaf of ``tree`` that the reference rejects (load order).
    A document load resolves the include fields of a scope before anything else of that scope is applied."""
    if not isinstance(tree, dict):
        return None
    by_key = {c["key"]: c for c in node["children"]}
    if includes_first:
        for k, v in tree.items():
            c = by_key.get(k)
            if c is not None and c["kind"] == "include" and v is not None:
                if refmodel.ref(c, v, ctx)[0] == REJ:
                    return (".".join(path + (k,)), c.get("name"))
                return None  # a resolvable include merges another file: not modelled here
    for k, v in (sorted(tree.items(), key=lambda kv: kv[0]) if sort else tree.items()):
        c = by_key.get(k)
        if c is None:
            continue
        if c["kind"] in ("schema", "configtype"):
            if isinstance(v, dict):
                sub = _first_bad(c, v, ctx, path + (k,), includes_first, sort)
                if sub:
                    return sub
            elif v is not None:
                return (".".join(path + (k,)), None)
            continue
        if c["kind"] == "schemalist":
            if v is None:
                continue
            return None  # to_python leniency for non-lists (a falsy scalar becomes an empty list); items: not modelled here
        if c["kind"] in ("virtual", "method"):
            continue
        verdict = ops.expected_after_load(c, v, ctx)  # a map is applied with load semantics (to_python, then validate)
        if verdict[0] == REJ:
            return (".".join(path + (k,)), c.get("name"))
        if verdict[0] == U:
            return None
    return None
