"""C12 — defaults, user-defined status and reset behave as a consistent state machine."""
import os

from hypothesis import strategies as st

from .. import ops, refmodel, sandbox, specs, worlds
from ..refmodel import A, REJ, U, DigestMarker, value_eq

ID = "C12"
LEVEL = "exploration"
DESIGN_REF = "DESIGN.md §4 C12"
RULE = (
    "Model-based stateful testing. A case = (schema spec with constant / callable (counter-backed) / absent "
    "defaults on every field kind at any depth, history of accepted and rejected assignments by attribute, dotted "
    "path and constructor keyword, load_tree / loads in a random format, maps assigned to sub-configurations, "
    "command-line overrides and reset_value of leaves, containers and sub-configurations). Oracle: (fresh) a "
    "newly built configuration shows every declared default (challenge defaults as a verifying digest, typed "
    "containers as typed values, callable defaults evaluated at least once during THIS construction) and reports "
    "no field user-defined; (defined-iff) after an op that returned, every addressed field is user-defined and "
    "reads as the reference normal form, after a rejected single assignment nothing changes, after a failed load "
    "only fields the load supplied may have changed, and no other field's status ever changes (fields of a "
    "sub-configuration that a nested map replaced start over from their defaults); (reset) the field shows its "
    "default again (callable re-evaluated), is not user-defined, and the deep snapshot of everything else is "
    "unchanged. Non-trivial = a reset after a successful set AND a rejected set on a user-defined field."
)
ASSUMPTIONS = [
    "loading or assigning a nested map replaces that sub-configuration by a fresh one before the map is applied "
    "(library behaviour by construction; the statement is silent), so its other fields return to their defaults",
    "callable defaults: 'evaluated anew' is checked as 'evaluated at least once during this construction/reset', "
    "never 'exactly once' (ChallengeField legitimately evaluates its default several times)",
]
REQUIRED = ["default:const", "default:callable", "default:none", "op:reset", "reset:after-set", "rejected:on-defined",
            "op:load_tree", "op:loads", "op:ctor", "varying-default", "reset:dynamic-subconfig"]
LEVEL_TEXT = (
    "Generated schemas with every default flavour and generated histories judged against the stated state machine "
    "after every step; kills mutants that forget the default mark on reset, cache callable defaults or clear the "
    "mark on a failed set."
)
LEVEL_NOTE = "Trusted: CPython, Hypothesis, vlib/refmodel.py, the snapshot function."
TECHNIQUE = "model-based stateful property testing (Hypothesis histories, per-step state-machine invariants)"


def selftest():
    refmodel.selftest()


def budget(tier):
    if tier == "quick":
        return {"cases": 500, "shards": 3}
    return {"cases": 4000, "shards": 16}


def strategy(tier):
    n = 20 if tier == "quick" else 60

    def hist(spec):
        leaves = ops.spec_leaves(spec)
        conts = ops.spec_containers(spec)
        extra = []
        if leaves:
            extra.append(st.fixed_dictionaries({"op": st.just("reset"), "leaf": st.integers(0, len(leaves) - 1)}))
            # focus: most of the history revolves around one or two leaves, so that set / rejected set / reset
            # sequences on the same field are common
            def focused(i):
                node = leaves[i][1]
                return st.one_of(
                    st.fixed_dictionaries({"op": st.sampled_from(["setattr", "setitem"]), "leaf": st.just(i), "value": ops.value_for(node)}),
                    st.fixed_dictionaries({"op": st.sampled_from(["setattr", "setitem"]), "leaf": st.just(i), "value": ops.value_for(node)}),
                    st.fixed_dictionaries({"op": st.just("reset"), "leaf": st.just(i)}))
            extra += [st.integers(0, min(1, len(leaves) - 1)).flatmap(focused)] * 5
            extra.append(st.integers(0, len(leaves) - 1).flatmap(focused))
        if conts:
            extra.append(st.fixed_dictionaries({"op": st.just("reset_sub"), "cont": st.integers(0, len(conts) - 1)}))
        base = ops.single_op(spec)
        return st.fixed_dictionaries({"spec": st.just(spec), "ops": st.lists(ops.weighted((1, base), (1, st.one_of(*extra))) if extra else base, min_size=4, max_size=n)})
    return worlds.schema_spec(tier).flatmap(hist)


def _default_ok(cc, node, value):
    """Does ``value`` (read from a configuration) show the declared default of ``node``?"""
    d = node.get("default") or {"mode": "none"}
    if node["kind"] in ("schemalist",):
        return value is None
    if d["mode"] == "none":
        return value is None
    want = specs.realize(d["value"])
    if node["kind"] == "challenge":
        return value_eq(value, DigestMarker(want))
    if node["kind"] == "list" and node.get("item") and node["item"]["kind"] == "any":
        # items are not validated; a list default is wrapped in a proxy, a tuple default is exposed as it is
        return value is not None and value_eq(list(value), list(want))
    if node["kind"] == "list" and node.get("item"):
        return isinstance(value, cc.ListProxy) and value_eq(value, list(want))
    if node["kind"] == "dict" and (node.get("keyf") or node.get("valuef")):
        return isinstance(value, cc.DictProxy) and value_eq(value, want)
    if node["kind"] == "list" and isinstance(want, tuple):
        return list(value) == list(want)
    return value_eq(value, want)


def _check_fresh(world, cfg, R, site, node=None, path=()):
    cc = world.cc
    node = node or world.spec
    for child in node["children"]:
        key = child["key"]
        kind = child["kind"]
        cpath = path + (key,)
        if kind in ("virtual", "method"):
            continue
        value = getattr(cfg, key)
        R.check(cc.is_value_defined(cfg, key) is False, "fresh-defined", site, "%s is reported user-defined on a fresh configuration" % ".".join(cpath))
        if kind in ("schema", "configtype"):
            if R.check(isinstance(value, cc.Config), "fresh-default", site + ":subconfig", "%s is %r" % (".".join(cpath), value)):
                _check_fresh(world, value, R, site, child, cpath)
            continue
        R.label("default:" + (child.get("default") or {"mode": "none"})["mode"])
        R.check(_default_ok(cc, child, value), "fresh-default", "%s:%s" % (site, kind),
                lambda: "%s shows %r, declared default %r" % (".".join(cpath), value, child.get("default")))


def _status(cc, cfg, spec, path=()):
    """{leaf path: defined?} for every leaf and sub-configuration key reachable without entering lists."""
    out = {}
    for child in spec["children"]:
        key = child["key"]
        if child["kind"] in ("virtual", "method"):
            continue
        cpath = path + (key,)
        out[cpath] = cc.is_value_defined(cfg, key)
        if child["kind"] in ("schema", "configtype"):
            sub = getattr(cfg, key)
            if isinstance(sub, cc.Config):
                out.update(_status(cc, sub, child, cpath))
    return out


def _given(node, tree, path=()):
    """Paths a tree supplies: leaves (with node, basic value) and the nested maps (replaced sub-configs)."""
    leaves, maps = {}, set()
    if not isinstance(tree, dict):
        return leaves, maps
    by_key = {c["key"]: c for c in node["children"]}
    for key, val in tree.items():
        child = by_key.get(key)
        if child is None:
            continue
        if child["kind"] in ("schema", "configtype"):
            maps.add(path + (key,))
            l2, m2 = _given(child, val, path + (key,))
            leaves.update(l2)
            maps |= m2
        elif child["kind"] not in ("virtual", "method"):
            leaves[path + (key,)] = (child, val)
    return leaves, maps


def _under(path, prefixes):
    return any(path[:len(p)] == p for p in prefixes)


def _without(snap, path):
    from .c01 import _without as w
    return w(snap, path)


VARY_KINDS = ("str", "int", "challenge", "secure", "list", "typed-list", "dict", "bytes", "any")


def exhaustive(tier):
    """Default factories that return a DIFFERENT value on every call: each new configuration and each reset must expose
    the value of its own call (per field kind x placement x form of the factory)."""
    for kind in VARY_KINDS:
        for place in ("root", "nested", "configtype", "list-item"):
            for form in ("function", "partial", "object"):
                yield {"mode": "varying-default", "kind": kind, "place": place, "form": form}
    # a value EQUAL to the declared default, assigned / loaded successfully, makes the field user-defined all the same
    for kind in ("str", "int", "bool", "list", "typed-list", "dict", "float"):
        for place in ("root", "nested"):
            for route in ("setattr", "setitem", "ctor", "load_tree", "loads-json", "loads-yaml", "assign-own-value", "iadd-own-value"):
                if route == "iadd-own-value" and kind not in ("list", "typed-list"):
                    continue
                yield {"mode": "same-as-default", "kind": kind, "place": place, "route": route}
    # a constant default on a list of CONFIGURATIONS (given as maps): an accepted assignment to a field of a default item,
    # or an in-place edit of the list, through one configuration - every other configuration and every reset show the declared default
    for configtype in (False, True):
        for place in ("root", "nested"):
            for edit in ("item-field", "item-nested-field", "append", "pop", "item-field+reset-item"):
                yield {"mode": "config-list-default", "configtype": configtype, "place": place, "edit": edit}
    # a nested section that became user-defined AS A WHOLE (map assignment, load, constructor keyword), then its leaves are
    # reset one by one: each reset touches that leaf only - the section's own mark included
    for how in ("assign-map", "load_tree", "loads-json", "ctor", "setitem-map"):
        for depth in (1, 2):
            for order in ("forward", "backward"):
                yield {"mode": "section-reset", "how": how, "depth": depth, "order": order}
    # a load that does not MENTION a nested sub-configuration leaves that sub-configuration
    # as it was: values and user-defined marks, per format and load route
    for fmt in ("json", "yaml", "xml", "bson", "pickle"):
        for route in ("loads", "load-file", "load_tree"):
            for mention in ("absent", "sibling-only"):  # (an explicit empty map IS a value loaded for the sub-configuration)
                for kind in ("schema", "configtype"):
                    yield {"mode": "unmentioned-sub", "fmt": fmt, "route": route, "mention": mention, "kind": kind}
    # a sub-configuration OBJECT (one that belongs to another configuration, or a free-standing one) assigned as a whole:
    # its leaves keep the status they had - no value was assigned or loaded for a leaf that was at its default
    for kind in ("schema", "configtype"):
        for source in ("other-config", "free-standing", "own"):
            for route in ("setattr", "setitem", "ctor", "load_tree"):
                for depth in (1, 2):
                    yield {"mode": "adopted-subconfig", "kind": kind, "source": source, "route": route, "depth": depth}
    # a constant list / dict default, empty or not, EDITED IN PLACE through one configuration: every other configuration
    # (built before or after the edit) and every reset still expose the declared default
    for kind in ("list", "typed-list", "any-list", "dict", "typed-dict", "keyed-dict", "any-dict"):
        for size in (0, 1, 3):
            for place in ("root", "nested", "list-item"):
                yield {"mode": "edited-default", "kind": kind, "size": size, "place": place}


def _same_as_default_case(case, R):
    cc = sandbox._state["cc"]
    kind, place, route = case["kind"], case["place"], case["route"]
    default = {"str": "dflt", "int": 5, "bool": False, "list": [1, "a"], "typed-list": [1, 2], "dict": {"k": 1}, "float": 1.5}[kind]
    make = {"str": lambda: cc.StringField(default=default), "int": lambda: cc.IntField(default=default), "bool": lambda: cc.BoolField(default=default),
            "list": lambda: cc.ListField(default=lambda: list(default)), "typed-list": lambda: cc.ListField(cc.IntField(), default=lambda: list(default)),
            "dict": lambda: cc.DictField(default=lambda: dict(default)), "float": lambda: cc.FloatField(default=default)}[kind]
    schema = cc.Schema()
    schema.other = cc.IntField(default=7)
    if place == "root":
        schema.f = make()
        path = ("f",)
    else:
        schema.a.f = make()
        schema.a.sib = cc.IntField(default=3)
        path = ("a", "f")
    R.label("same-as-default")
    R.nontrivial = True
    value = type(default)(default) if isinstance(default, (list, dict)) else default
    tree = value
    for k in reversed(path):
        tree = {k: tree}
    cfg = schema()
    owner = cfg if place == "root" else cfg.a
    R.check(cc.is_value_defined(owner, "f") is False, "fresh-defined", "same-as-default", "user-defined on a fresh configuration")
    try:
        if route == "setattr":
            setattr(owner, "f", value)
        elif route == "setitem":
            cfg[".".join(path)] = value
        elif route == "ctor":
            if place != "root":
                return
            cfg = schema(f=value)
            owner = cfg
        elif route == "load_tree":
            cfg.load_tree(tree)
        elif route == "assign-own-value":
            owner.f = owner.f          # the very object the configuration holds is assigned back: an assignment all the same
        elif route == "iadd-own-value":
            owner.f += []              # reads the held list, extends it in place, assigns it back
        else:
            fmt = route.split("-")[1]
            cfg.loads(cc.ConfigFormat.get(fmt).dumps(cfg, tree), fmt)
        owner = cfg if place == "root" else cfg.a
    except Exception as exc:
        R.fail("defined-iff", "same-as-default:raises:" + route, "assigning the default value itself raised %r" % (exc,))
        return
    R.check(cc.is_value_defined(owner, "f") is True, "defined-iff", "same-as-default:" + route,
            lambda: "%s given its own default value %r through %s: not reported user-defined" % (".".join(path), value, route))
    R.check(cc.is_value_defined(cfg, "other") is False, "defined-iff", "same-as-default:others", "another field became user-defined")


def _config_list_default_case(case, R):
    cc = sandbox._state["cc"]
    item = cc.Schema()
    item.name = cc.StringField(default="n")
    item.port = cc.IntField(default=80)
    item.tls.level = cc.IntField(default=1)
    Item = cc.make_type(item, "DefaultedItem", module=__name__) if case["configtype"] else item
    declared = [{"name": "a", "port": 1, "tls": {"level": 2}}, {"name": "b", "port": 2, "tls": {"level": 3}}]
    import copy
    schema = cc.Schema()
    holder = schema if case["place"] == "root" else schema.site
    holder.servers = cc.ListField(Item, default=copy.deepcopy(declared))
    schema.other = cc.IntField(default=7)
    owner = (lambda c: c) if case["place"] == "root" else (lambda c: c.site)
    R.label("config-list-default", "config-list-default:" + case["edit"])
    R.nontrivial = True

    def view(cfg):
        v = owner(cfg).servers
        return None if v is None else [{"name": s.name, "port": s.port, "tls": {"level": s.tls.level}} for s in v]
    early, first = schema(), schema()
    if not R.check(view(first) == declared and view(early) == declared, "fresh-default", "config-list:first", lambda: "a fresh configuration shows %r, declared %r" % (view(first), declared)):
        return
    edit = case["edit"]
    lst = owner(first).servers
    if edit == "item-field":
        lst[0].port = 9999
    elif edit == "item-nested-field":
        lst[1].tls.level = 9999
    elif edit == "append":
        lst.append({"name": "c"})
    elif edit == "pop":
        lst.pop()
    else:
        lst[0].port = 9999
        cc.reset_value(lst[0], "port")
        lst[0].name = "edited"
    sig = "config-list:" + edit
    R.check(view(early) == declared, "fresh-default", sig + ":earlier-config", lambda: "editing one configuration's default list of configurations changed a configuration built earlier: %r" % (view(early),))
    second = schema()
    R.check(view(second) == declared, "fresh-default", sig + ":later-config", lambda: "a configuration built after another one's default items were edited shows %r (declared %r)" % (view(second), declared))
    R.check(cc.is_value_defined(owner(second), "servers") is False, "fresh-default", sig + ":defined", "a fresh configuration reports the list user-defined")
    owner(first).servers = [{"name": "x", "port": 5}]
    cc.reset_value(owner(first), "servers")
    R.check(view(first) == declared and cc.is_value_defined(owner(first), "servers") is False, "reset", sig,
            lambda: "reset shows %r (declared %r), user-defined=%r" % (view(first), declared, cc.is_value_defined(owner(first), "servers")))
    R.check(first.other == 7 and second.other == 7, "reset", "config-list:others", "another field changed")


def _section_reset_case(case, R):
    cc = sandbox._state["cc"]
    how, depth, order = case["how"], case["depth"], case["order"]
    schema = cc.Schema()
    schema.name = cc.StringField(default="n")
    sect = schema.db if depth == 1 else schema.site.db
    sect.host = cc.StringField(default="localhost")
    sect.port = cc.IntField(default=80)
    sect.opts.level = cc.IntField(default=1)
    key = "db" if depth == 1 else "site.db"
    R.label("section-reset", "section-reset:" + how)
    R.nontrivial = True
    given = {"host": "h.example", "port": 8080, "opts": {"level": 5}}
    tree = {"db": given} if depth == 1 else {"site": {"db": given}}
    try:
        if how == "ctor":
            if depth != 1:
                return
            cfg = schema(db=given)
        else:
            cfg = schema()
            if how == "assign-map":
                setattr(cfg if depth == 1 else cfg.site, "db", given)
            elif how == "setitem-map":
                cfg[key] = given
            elif how == "load_tree":
                cfg.load_tree(tree)
            else:
                cfg.loads(cc.ConfigFormat.get("json").dumps(cfg, tree), "json")
    except Exception as exc:
        R.fail("crash", "section-reset:" + how, "giving the section a map raised %r" % (exc,))
        return
    paths = [key, key + ".host", key + ".port", key + ".opts", key + ".opts.level", "name"] + (["site"] if depth == 2 else [])

    def status():
        return {p: cc.is_value_defined(cfg, p) for p in paths}
    leaves = [key + ".host", key + ".port", key + ".opts.level"]
    for leaf in (leaves if order == "forward" else leaves[::-1]):
        before = status()
        owner_path, _, name = leaf.rpartition(".")
        cc.reset_value(cfg[owner_path], name)
        after = status()
        want = dict(before)
        want[leaf] = False
        R.check(after == want, "reset", "section-reset:%s" % how,
                lambda: "the section %s was given as a whole (%s); reset of %s changed the user-defined marks %r -> %r" % (key, how, leaf, before, after))
        default = {"host": "localhost", "port": 80, "level": 1}[name]
        R.check(cfg[leaf] == default, "reset", "section-reset:value", lambda: "%s reads %r after reset" % (leaf, cfg[leaf]))


def _unmentioned_sub_case(case, R):
    cc = sandbox._state["cc"]
    fmt, route, mention, kind = case["fmt"], case["route"], case["mention"], case["kind"]
    sub = cc.Schema()
    sub.host = cc.StringField(default="localhost")
    sub.port = cc.IntField(default=80)
    sub.deep.level = cc.IntField(default=1)
    sub.deep.tags = cc.ListField(cc.StringField(), default=lambda: ["a"])
    schema = cc.Schema()
    schema.name = cc.StringField(default="n")
    schema.other.flag = cc.BoolField(default=False)
    schema.sub = sub if kind == "schema" else cc.make_type(sub, "UnmentionedT", module=__name__)
    R.label("unmentioned-sub", "unmentioned-sub:" + mention)
    R.nontrivial = True
    with sandbox.CaseDir() as d:
        cfg = schema(key_filename=os.path.join(d, "key"))
        cfg.sub.port = 8080
        cfg.sub.deep.level = 5
        tree = {"name": "loaded"}
        if mention == "sibling-only":
            tree["other"] = {"flag": True}

        def status():
            return [(p, cfg[p], cc.is_value_defined(cfg, p)) for p in ("sub.host", "sub.port", "sub.deep.level")] + [("sub.deep.tags", list(cfg.sub.deep.tags), cc.is_value_defined(cfg, "sub.deep.tags"))]
        before = status()
        try:
            if route == "load_tree":
                cfg.load_tree(tree)
            else:
                doc = cc.ConfigFormat.get(fmt).dumps(cfg, tree)
                if route == "loads":
                    cfg.loads(doc, fmt)
                else:
                    target = os.path.join(d, "partial." + fmt)
                    with open(target, "wb") as fp:
                        fp.write(doc)
                    cfg.load(target, fmt)
        except Exception as exc:
            R.fail("crash", "unmentioned-sub:" + route, "loading a partial document raised %r" % (exc,))
            return
        after = status()
        R.check(cfg.name == "loaded" and cc.is_value_defined(cfg, "name"), "defined-iff", "unmentioned-sub:supplied", "the supplied field was not loaded")
        R.check(before == after, "defined-iff", "unmentioned-sub:%s:%s" % (route, mention),
                lambda: "%s (%s) of a document that %s the sub-configuration changed it: %r -> %r" % (
                    route, fmt, "does not mention", before, after))


def _adopted_subconfig_case(case, R):
    cc = sandbox._state["cc"]
    kind, source, route, depth = case["kind"], case["source"], case["route"], case["depth"]
    sub = cc.Schema()
    sub.host = cc.StringField(default="localhost")
    sub.port = cc.IntField(default=80)
    sub.tags = cc.ListField(cc.StringField(), default=lambda: ["a"])
    sub.deep.level = cc.IntField(default=1)
    sub.deep.note = cc.StringField()
    schema = cc.Schema()
    schema.other = cc.IntField(default=7)
    holder = schema if depth == 1 else schema.outer
    if kind == "schema":
        holder.sub = sub
    else:
        holder.sub = cc.make_type(sub, "AdoptedT", module=__name__)
    owner = (lambda cfg: cfg) if depth == 1 else (lambda cfg: cfg.outer)
    key = "sub" if depth == 1 else "outer.sub"
    R.label("adopted-subconfig", "adopted-subconfig:" + source)
    R.nontrivial = True
    src = schema()
    if source == "free-standing":
        giver = type(owner(src).sub)() if kind == "configtype" else sub()
    else:
        giver = owner(src).sub
    giver.port = 8080
    giver.deep.note = "n"
    leaves = [("host", False), ("port", True), ("tags", False), ("deep.level", False), ("deep.note", True)]

    def status(c):
        return [(name, cc.is_value_defined(c, name)) for name, _ in leaves]
    if not R.check(status(giver) == leaves, "defined-iff", "adopted-subconfig:giver", lambda: "before the assignment the giver reports %r" % (status(giver),)):
        return
    dst = src if source == "own" else schema()
    try:
        if route == "setattr":
            owner(dst).sub = giver
        elif route == "setitem":
            dst[key] = giver
        elif route == "ctor":
            if depth != 1:
                return
            dst = schema(sub=giver)
        else:
            dst.load_tree({"sub": giver} if depth == 1 else {"outer": {"sub": giver}})
    except Exception:
        R.label("adopted-subconfig:rejected")
        return
    got = owner(dst).sub
    if not isinstance(got, cc.Config):
        return
    R.check((got.host, got.port, list(got.tags), got.deep.level, got.deep.note) == ("localhost", 8080, ["a"], 1, "n"), "defined-iff", "adopted-subconfig:values",
            lambda: "after %s of a sub-configuration object the values read %r" % (route, (got.host, got.port, got.tags, got.deep.level, got.deep.note)))
    R.check(status(got) == leaves, "defined-iff", "adopted-subconfig:%s:%s" % (source, route),
            lambda: "a sub-configuration object (%s) with port and deep.note assigned was given to %s via %s: its leaves now report user-defined = %r" % (source, key, route, status(got)))
    R.check(cc.is_value_defined(dst, "other") is False, "defined-iff", "adopted-subconfig:others", "another field became user-defined")


def _edited_default_case(case, R):
    cc = sandbox._state["cc"]
    kind, size, place = case["kind"], case["size"], case["place"]
    is_list = kind.endswith("list")
    declared = [10, 20, 30][:size] if is_list else dict([("a", 1), ("b", 2), ("c", 3)][:size])
    literal = type(declared)(declared)  # the object handed to the field; ``declared`` is never shared with the library
    field = {"list": lambda: cc.ListField(default=literal), "typed-list": lambda: cc.ListField(cc.IntField(), default=literal),
             "any-list": lambda: cc.ListField(cc.AnyField(), default=literal), "any-dict": lambda: cc.DictField(cc.AnyField(), cc.AnyField(), default=literal),
             "dict": lambda: cc.DictField(default=literal), "typed-dict": lambda: cc.DictField(cc.StringField(), cc.IntField(), default=literal),
             "keyed-dict": lambda: cc.DictField(cc.StringField(), default=literal)}[kind]()
    schema = cc.Schema()
    schema.other = cc.IntField(default=7)
    if place == "root":
        schema.f = field
        owner = lambda cfg: cfg
    elif place == "nested":
        schema.a.b.f = field
        owner = lambda cfg: cfg.a.b
    else:
        item = cc.Schema()
        item.f = field
        item.tag = cc.StringField()
        schema.rows = cc.ListField(item)
        owner = lambda cfg: cfg.rows[0]
    R.label("edited-default", "edited-default:" + ("empty" if not size else "non-empty"))
    R.nontrivial = True

    def build():
        cfg = schema()
        if place == "list-item":
            cfg.rows = [{"tag": "t"}]
        return cfg

    def shows(cfg):
        v = owner(cfg).f
        return v is not None and (list(v) if is_list else dict(v)) == declared

    def edit(cfg, n):
        v = owner(cfg).f
        if is_list:
            v.append(100 + n)
            v += [200 + n]
            v.insert(0, 300 + n)
        else:
            v["k%d" % n] = 100 + n
            v.update({"u%d" % n: 200 + n})
            v.setdefault("s%d" % n, 300 + n)
    sig = "edited-default:%s:%s" % (kind, "empty" if not size else "non-empty")
    early = build()
    first = build()
    if not R.check(shows(first) and shows(early), "fresh-default", sig + ":first", lambda: "a fresh configuration shows %r, declared default %r" % (owner(first).f, declared)):
        return
    edit(first, 1)
    if shows(first):
        R.label("edited-default:edit-not-visible")  # (reads hand out copies: nothing to observe, not a C12 matter)
    R.check(cc.is_value_defined(owner(early), "f") is False and shows(early), "fresh-default", sig + ":earlier-config",
            lambda: "editing one configuration's default value in place changed a configuration built earlier: %r (declared %r)" % (owner(early).f, declared))
    second = build()
    R.check(shows(second), "fresh-default", sig + ":later-config",
            lambda: "after another configuration's default value was edited in place, a new configuration shows %r (declared %r)" % (owner(second).f, declared))
    cc.reset_value(owner(first), "f")
    R.check(shows(first), "reset", sig, lambda: "reset after an in-place edit restores %r (declared %r)" % (owner(first).f, declared))
    R.check(cc.is_value_defined(owner(first), "f") is False, "reset", sig + ":defined", "user-defined after reset")
    edit(first, 2)
    cc.reset_value(owner(second), "f")
    R.check(shows(second), "reset", sig + ":other", lambda: "reset of one configuration after ANOTHER one's value was edited in place restores %r (declared %r)" % (owner(second).f, declared))
    third = build()
    R.check(shows(third), "fresh-default", sig + ":third-config", lambda: "a third configuration shows %r (declared %r)" % (owner(third).f, declared))
    R.check(first.other == 7 and second.other == 7, "reset", "edited-default:others", "another field changed")


def _nth(kind, n):
    return {"str": "value-%d" % n, "int": n, "challenge": "pass-%d" % n, "secure": "secret-%d" % n, "list": [n, "x"], "typed-list": [n, n + 1],
            "dict": {"k": n}, "bytes": b"bytes-%d" % n, "any": {"n": n}}[kind]


def _shows(cc, kind, value, n):
    want = _nth(kind, n)
    if kind == "challenge":
        if type(value).__name__ != "DigestValue":
            return False
        try:
            value.challenge(want)
            return True
        except Exception:
            return False
    if kind in ("list", "typed-list"):
        return value is not None and list(value) == want
    if kind == "dict":
        return value is not None and dict(value) == want
    return value == want


def _varying_case(case, R):
    import functools
    cc = sandbox._state["cc"]
    kind, place, form = case["kind"], case["place"], case["form"]
    count = [0]

    def produce():
        count[0] += 1
        return _nth(kind, count[0])

    class Factory:
        def __call__(self):
            return produce()
    factory = produce if form == "function" else functools.partial(lambda f: f(), produce) if form == "partial" else Factory()
    field = {"str": lambda: cc.StringField(default=factory), "int": lambda: cc.IntField(default=factory),
             "challenge": lambda: cc.ChallengeField("sha256", default=factory), "secure": lambda: cc.SecureField(default=factory),
             "list": lambda: cc.ListField(default=factory), "typed-list": lambda: cc.ListField(cc.IntField(), default=factory),
             "dict": lambda: cc.DictField(default=factory), "bytes": lambda: cc.BytesField(default=factory), "any": lambda: cc.AnyField(default=factory)}[kind]()
    schema = cc.Schema()
    schema.other = cc.IntField(default=7)
    if place == "root":
        schema.f = field
        read = lambda cfg: cfg.f
        owner = lambda cfg: cfg
    elif place == "nested":
        schema.a.b.f = field
        read = lambda cfg: cfg.a.b.f
        owner = lambda cfg: cfg.a.b
    elif place == "configtype":
        sub = cc.Schema()
        sub.f = field
        schema.t = cc.make_type(sub, "VaryT", module=__name__)
        read = lambda cfg: cfg.t.f
        owner = lambda cfg: cfg.t
    else:
        item = cc.Schema()
        item.f = field
        item.tag = cc.StringField()
        schema.items = cc.ListField(item)
        read = lambda cfg: cfg.items[0].f
        owner = lambda cfg: cfg.items[0]
    R.label("varying-default")
    R.nontrivial = True
    with sandbox.CaseDir() as d:
        def build():
            cfg = schema(key_filename=os.path.join(d, "key"))
            if place == "list-item":
                cfg.items = [{"tag": "t"}]
            return cfg
        first = build()
        n1 = count[0]
        R.check(n1 >= 1 and _shows(cc, kind, read(first), n1), "fresh-default", "varying:first:%s:%s" % (kind, place),
                lambda: "first configuration shows %r after %d call(s) of the factory" % (read(first), n1))
        second = build()
        n2 = count[0]
        R.check(n2 > n1 and _shows(cc, kind, read(second), n2), "fresh-default", "varying:second:%s:%s" % (kind, place),
                lambda: "second configuration shows %r; the factory was called %d time(s) in all and returned %r last" % (read(second), n2, _nth(kind, n2) if n2 else None))
        R.check(_shows(cc, kind, read(first), n1), "fresh-default", "varying:first-kept:%s:%s" % (kind, place),
                lambda: "building a second configuration changed the first one's value to %r" % (read(first),))
        try:
            setattr(owner(first), "f", _nth(kind, 1000))
        except Exception:
            pass
        cc.reset_value(owner(first), "f")
        n3 = count[0]
        R.check(n3 > n2 and _shows(cc, kind, read(first), n3), "reset", "varying:%s:%s" % (kind, place),
                lambda: "after reset the field shows %r; the factory was called %d time(s) in all" % (read(first), n3))
        R.check(cc.is_value_defined(owner(first), "f") is False, "reset", "varying:defined", "still user-defined after reset")
        if place == "root":
            # a constructor keyword is an assignment, an explicit None included: the field then holds None, user-defined
            third = schema(key_filename=os.path.join(d, "key"), f=None)
            R.check(third.f is None and cc.is_value_defined(third, "f") is True, "defined-iff", "ctor:none-keyword:" + kind,
                    lambda: "schema(f=None): f shows %r, user-defined=%r" % (third.f, cc.is_value_defined(third, "f")))
            R.check(cc.is_value_defined(third, "other") is False and third.other == 7, "defined-iff", "ctor:none-keyword:others", "another field changed")


def run_case(case, R):
    if case.get("mode") == "varying-default":
        return _varying_case(case, R)
    if case.get("mode") == "config-list-default":
        return _config_list_default_case(case, R)
    if case.get("mode") == "section-reset":
        return _section_reset_case(case, R)
    if case.get("mode") == "unmentioned-sub":
        return _unmentioned_sub_case(case, R)
    if case.get("mode") == "adopted-subconfig":
        return _adopted_subconfig_case(case, R)
    if case.get("mode") == "edited-default":
        return _edited_default_case(case, R)
    if case.get("mode") == "same-as-default":
        return _same_as_default_case(case, R)
    cc = sandbox._state["cc"]
    spec = case["spec"]
    with sandbox.CaseDir() as d:
        world = worlds.World(cc, spec)
        keyfile = os.path.join(d, "key")
        calls_before = {k: v[0] for k, v in world.counters.items() if isinstance(v, list) and v and isinstance(v[0], int)}
        state = {"cfg": world.schema(key_filename=keyfile), "keyfile": keyfile}
        _check_fresh(world, state["cfg"], R, "construction")
        for (path, node) in ops.spec_leaves(spec):
            if (node.get("default") or {}).get("mode") == "callable":
                R.check(world.counters[path][0] > calls_before.get(path, 0), "fresh-callable", "construction",
                        "callable default of %s was not evaluated while building the configuration" % ".".join(path))
        leaves = dict(ops.spec_leaves(spec))
        set_ok = set()
        reset_after_set = rejected_on_defined = False

        for op in case["ops"]:
            name = op["op"]
            cfg = state["cfg"]
            ops.prepare(world, state, op)
            st_before = _status(cc, cfg, spec)
            snap_before = worlds.snapshot(cfg, cc)
            counters_before = {k: v[0] for k, v in world.counters.items() if isinstance(v, list) and v and isinstance(v[0], int)}

            if name == "reset_sub":
                conts = ops.spec_containers(spec)
                path, node = conts[op["cont"] % len(conts)]
                planted = False
                if node.get("dynamic"):
                    # the sub-configuration of a dynamic schema holds a key of its own (not declared) when it is reset
                    try:
                        setattr(worlds.get_path(cfg, path), "zzdyn", "undeclared")
                        planted = True
                        snap_before = worlds.snapshot(cfg, cc)
                        R.label("reset:dynamic-subconfig")
                    except Exception:
                        pass
                try:
                    cc.reset_value(cfg, ".".join(path))
                except Exception as exc:
                    R.fail("reset-raises", "subconfig", "reset_value(%s) raised %r" % (".".join(path), exc))
                    continue
                R.label("op:reset")
                sub = worlds.get_path(cfg, path)
                if R.check(isinstance(sub, cc.Config), "reset", "subconfig", "after reset %s is %r" % (".".join(path), sub)):
                    _check_fresh(world, sub, R, "reset-subconfig", node, path)
                    if planted:
                        declared = {c["key"] for c in node["children"]}
                        extra = [k for k, _ in sub if k not in declared and not k.startswith("is_")]
                        R.check(not extra, "reset", "subconfig:dynamic-key-survives",
                                lambda: "after resetting %s the undeclared key(s) %r are still there" % (".".join(path), extra))
                R.check(cc.is_value_defined(cfg, ".".join(path)) is False, "reset", "subconfig:defined", "sub-configuration still user-defined after reset")
                after = worlds.snapshot(cfg, cc)
                R.check(_without(snap_before, path) == _without(after, path), "reset-collateral", "subconfig",
                        lambda: "resetting %s changed something else: %s" % (".".join(path), worlds.diff(_without(snap_before, path), _without(after, path))))
                set_ok = {p for p in set_ok if p[:len(path)] != path}
                continue

            out = ops.apply_op(world, state, op)
            if out.kind == "skipped":
                continue
            R.label("op:" + name)
            cfg = state["cfg"]
            info = out.info

            if name == "ctor":
                if out.kind == "ok":
                    # a new configuration: keywords are user-defined, everything else fresh
                    given = set(info["kw"])
                    for child in spec["children"]:
                        key = child["key"]
                        if child["kind"] in ("virtual", "method"):
                            continue
                        R.check(cc.is_value_defined(cfg, key) == (key in given), "defined-iff", "ctor",
                                "after ctor(%s): %s user-defined=%r" % (sorted(given), key, cc.is_value_defined(cfg, key)))
                        if key not in given and child["kind"] not in ("schema", "configtype"):
                            R.check(_default_ok(cc, child, getattr(cfg, key)), "fresh-default", "ctor:" + child["kind"],
                                    lambda: "after ctor, %s shows %r, default %r" % (key, getattr(cfg, key), child.get("default")))
                    set_ok = {(k,) for k in given}
                continue

            st_after = _status(cc, cfg, spec)
            changed = {p for p in set(st_before) | set(st_after) if st_before.get(p) != st_after.get(p)}

            if name == "reset":
                path, node = out.target, info["node"]
                if out.kind != "ok":
                    R.fail("reset-raises", node["kind"], "reset_value(%s) raised %r" % (".".join(path), out.exc))
                    continue
                if path in set_ok:
                    reset_after_set = True
                    R.label("reset:after-set")
                value = worlds.get_path(cfg, path)
                R.check(_default_ok(cc, node, value), "reset", "value:" + node["kind"],
                        lambda: "after reset %s shows %r, declared default %r" % (".".join(path), value, node.get("default")))
                R.check(st_after.get(path) is False, "reset", "defined:" + node["kind"], "%s still user-defined after reset" % ".".join(path))
                if (node.get("default") or {}).get("mode") == "callable":
                    R.check(world.counters[path][0] > counters_before.get(path, 0), "reset", "callable", "callable default not re-evaluated by reset")
                after = worlds.snapshot(cfg, cc)
                R.check(_without(snap_before, path) == _without(after, path), "reset-collateral", node["kind"],
                        lambda: "resetting %s changed something else: %s" % (".".join(path), worlds.diff(_without(snap_before, path), _without(after, path))))
                R.check(changed <= {path}, "reset-collateral", "status", "reset of %s changed the status of %s" % (".".join(path), sorted(changed - {path})))
                set_ok.discard(path)
                continue

            if name in ("setattr", "setitem", "set_readonly", "dyn_set", "listop", "dictop", "slistop"):
                path = out.target
                if info.get("inplace") or info.get("dynamic") or info.get("readonly"):
                    # in-place mutation of a held value is not an assignment: no status may change at all
                    R.check(not changed, "defined-iff", name, lambda: "%s changed the user-defined status of %s" % (name, sorted(changed)))
                    continue
                if out.kind == "ok":
                    R.check(st_after.get(path) is True, "defined-iff", name + ":accepted", "%s accepted but not reported user-defined" % ".".join(path))
                    R.check(changed <= {path}, "defined-iff", name + ":others", lambda: "assigning %s changed the status of %s" % (".".join(path), sorted(changed - {path})))
                    set_ok.add(path)
                else:
                    if st_before.get(path):
                        rejected_on_defined = True
                        R.label("rejected:on-defined")
                    R.check(not changed, "defined-iff", name + ":rejected", lambda: "a rejected assignment to %s changed the status of %s" % (".".join(path), sorted(changed)))
                continue

            if name in ("load_tree", "loads", "assign_sub", "cmdline"):
                if name == "cmdline":
                    given = {p: (n, t) for p, (n, t) in info.get("supplied", {}).items() if info.get("ignore") != ".".join(p)}
                    maps = set()
                    base = ()
                elif name == "assign_sub":
                    base = out.target
                    if isinstance(info.get("value"), dict):
                        given, maps = _given(info["node"], info["value"], base)
                        maps.add(base)
                    else:
                        given, maps = {}, {base}
                else:
                    base = ()
                    given, maps = _given(spec, info.get("tree"))
                if name == "assign_sub" and out.kind != "ok":
                    # a rejected assignment (a map with a bad leaf / failing whole-config validation, or a non-map)
                    # never changes which fields count as user-defined
                    R.check(not changed, "defined-iff", "assign_sub:rejected", lambda: "a rejected assignment to sub-configuration %s changed the status of %s" % (".".join(base), sorted(changed)))
                    after_snap = worlds.snapshot(cfg, cc)
                    R.check(after_snap == snap_before, "defined-iff", "assign_sub:rejected-values", lambda: "a rejected assignment to sub-configuration %s changed values: %s" % (".".join(base), worlds.diff(snap_before, after_snap)))
                    continue
                allowed = set(given) | maps | {p for p in st_before if _under(p, maps)} | {p for p in st_after if _under(p, maps)}
                R.check(changed <= allowed, "defined-iff", name + ":others",
                        lambda: "%s changed the status of fields it did not supply: %s" % (name, sorted(changed - allowed)))
                if out.kind == "ok":
                    for p, (node, basic) in given.items():
                        if name == "cmdline" and node["kind"] in ("bool", "featureflag"):
                            pass
                        R.check(st_after.get(p) is True, "defined-iff", name + ":accepted", lambda: "%s loaded %s but it is not reported user-defined" % (name, ".".join(p)))
                        set_ok.add(p)
                    # fields of a replaced sub-configuration that were not supplied start over
                    for p, node in leaves.items():
                        if _under(p, maps) and p not in given and name != "cmdline" and not (name == "assign_sub" and not isinstance(info.get("value"), dict)):
                            R.check(st_after.get(p) is False, "defined-iff", name + ":replaced", lambda: "%s not supplied to the replaced sub-configuration yet user-defined" % ".".join(p))
                            set_ok.discard(p)
                continue

        if reset_after_set and rejected_on_defined:
            R.nontrivial = True
