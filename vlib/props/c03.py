"""C03 — secrets are stored only encrypted and decrypt with the configuration's key file."""
import base64
import json
import os
import pickle

from hypothesis import strategies as st

from .. import aesref, sandbox, trees

ID = "C03"
LEVEL = "exploration"
DESIGN_REF = "DESIGN.md §4 C03"
RULE = (
    "A case = (which of 11 secret positions hold a value (the last: an item moved from the root's list into the list of a "
    "nested configuration): root, nested sub-configurations at depth 1-3, a config "
    "type and a schema below it, items of a list of schemas and of a list of config types, items of a typed list of "
    "secrets, entries of a typed dict of secrets in a nested configuration; a key-file plan: root "
    "constructor argument or none, _key_filename assignments to sub-configurations at three points of the "
    "history (before the values, before the save, after a first save), class-level key files of the config "
    "types, none => default key file in the sandbox HOME; non-empty plaintexts (short, long, Unicode, whitespace, "
    "look-alike); method aes/xor/best per field; one of the 5 formats; optionally a final stage in which the key files "
    "get new content on disk, possibly after a save that failed on broken key files, and the same configuration "
    "object is saved again). A model predicts the key file of every "
    "configuration: nearest ancestor (or itself) that names one, else the default. Oracle: (structure) the saved "
    "document, decoded independently (json / yaml.safe_load / pickle / bson / XML), carries at every secret "
    "position {method in {aes,xor}, ciphertext: base64} and the REFERENCE cipher under the bytes of the "
    "predicted key file recovers the plaintext; (leak) for distinctive plaintexts neither the raw bytes nor any "
    "string or key of the decoded document contains the plaintext; (reload) new configuration objects built from "
    "a rebuilt schema with the same plan load the file and read back every plaintext; (files) the files opened or "
    "created inside the sandbox during save and load (sys.audit 'open' events) are a subset of the predicted key "
    "files plus the destination, and the default key file exists afterwards only if the model says some "
    "configuration uses it. Non-trivial = a secret below the root AND a non-default key file somewhere."
)
ASSUMPTIONS = [
    "vlib/aesref.py (NIST vectors checked at start-up) as the independent cipher",
    "a key file assigned to a *schema* sub-configuration does not survive a load that replaces that "
    "sub-configuration (recorded known finding); such plans are labelled so the signature stays narrow",
]
REQUIRED = ["secret:typed-list-item", "secret:typed-dict-entry", "plan:root-key", "plan:default", "plan:sub-assign", "plan:class-key", "plan:rekey", "plan:rotate", "plan:rotate-after-failed-save", "plan:rekey-loaded", "secret:moved-item", "secret:root", "secret:depth3",
            "secret:configtype", "secret:list-item", "secret:ct-list-item", "default-key-must-not-exist"] + ["fmt:" + f for f in trees.FORMATS]
LEVEL_TEXT = (
    "Generated key-file plans x secret placements x formats with a model of key inheritance, an independent "
    "decoder and cipher, and observed file access; kills mutants that use the default key, ignore the parent, or "
    "record 'best' instead of the resolved method."
)
LEVEL_NOTE = "Trusted: CPython, Hypothesis, vlib/aesref.py, json/yaml/pickle/bson decoders, sys.audit open events."
TECHNIQUE = "model-based property testing (Hypothesis): key-inheritance model + independent decoder/cipher + audited file access"

POSITIONS = ["s0", "a.s1", "a.b.s2", "a.b.c.s3", "t.s4", "t.u.s5", "items[].s6", "titems[].s7", "slist[]", "a.sdict{}", "a.moved[].s6"]
SUBCONFIGS = ["a", "a.b", "a.b.c", "t", "t.u"]
B64 = set("ABCDEFGHIJKLMNOPQRSTUVWXYZabcdefghijklmnopqrstuvwxyz0123456789+/=")


def selftest():
    aesref.selftest()


def budget(tier):
    if tier == "quick":
        return {"cases": 1500, "shards": 2}
    return {"cases": 3000, "shards": 16}


def _plaintext():
    xmlsafe = trees.text_strategy("xml", 16).filter(lambda s: s != "" and s.strip() != "" or len(s) > 0).filter(lambda s: len(s) > 0)
    return st.one_of(xmlsafe, st.sampled_from(["hunter2", "pässwörd-ünïcode", "  spaced  ", "line\nbreak", "true", "0", "{\"method\": \"xor\"}",
                                                "<tag>&amp;</tag>", "x" * 100, "密码-secret-密码", "a", "null"]))


def strategy(tier):
    key = st.sampled_from([None, "k1", "k2", "k3"])
    return st.fixed_dictionaries({
        "fmt": st.sampled_from(trees.FORMATS),
        "values": st.lists(st.tuples(st.integers(0, len(POSITIONS) - 1), _plaintext(), st.sampled_from(["aes", "xor", "best"])), min_size=1, max_size=6),
        "n_items": st.integers(1, 3),
        "root_key": st.sampled_from([None, "kroot", "kroot"]),
        "assign": st.lists(st.tuples(st.sampled_from(SUBCONFIGS), st.sampled_from(["k1", "k2", "k3", "kroot"]), st.sampled_from(["early", "before_save", "after_save"])), max_size=3),
        # a class-level key may be the very file the enclosing configuration resolves to (kroot)
        "class_keys": st.fixed_dictionaries({"T": st.sampled_from([None, None, "kT", "kroot"]), "TI": st.sampled_from([None, None, "kTI", "kroot"])}),
        "rekey_root": st.sampled_from([None, None, "kroot2"]),
        "rotate": st.sampled_from([None, "plain", "after-failed-save", "after-failed-save"]),
        "rekey_loaded": st.booleans(),
        "methods": st.lists(st.sampled_from(["aes", "xor", "best"]), min_size=10, max_size=10),
    })


def _build(cc, case, d):
    m = case["methods"]

    def sec(i):
        return cc.SecureField(method=m[i])
    root = cc.Schema()
    root.s0 = sec(0)
    root.plain = cc.StringField(default="visible")
    root.a.s1 = sec(1)
    root.a.b.s2 = sec(2)
    root.a.b.c.s3 = sec(3)
    tsch = cc.Schema()
    tsch.s4 = sec(4)
    tsch.u.s5 = sec(5)
    tsch.note = cc.StringField()
    T = cc.make_type(tsch, "T", module=__name__, key_filename=_kp(d, case["class_keys"]["T"]))
    root.t = T
    item = cc.Schema()
    item.s6 = sec(6)
    item.name = cc.StringField(default="n")
    root.items = cc.ListField(item)
    tisch = cc.Schema()
    tisch.s7 = sec(7)
    TI = cc.make_type(tisch, "TI", module=__name__, key_filename=_kp(d, case["class_keys"]["TI"]))
    root.titems = cc.ListField(TI)
    root.slist = cc.ListField(sec(8))            # a typed list of secrets
    root.a.sdict = cc.DictField(cc.StringField(), sec(9))   # a typed dict of secrets in a nested configuration
    root.a.moved = cc.ListField(item)            # same item schema as root.items: items travel from there to here
    return root, T, TI


def _kp(d, name):
    return os.path.join(d, name + ".key") if name else None


def _sub(cfg, dotted):
    for part in dotted.split("."):
        cfg = getattr(cfg, part)
    return cfg


def _model_key(case, d, owner, assigned):
    """Key file path the configuration at dotted path ``owner`` ('' = root) must use."""
    path = owner
    while True:
        if path in assigned:
            return assigned[path]
        if path == "t" and case["class_keys"]["T"]:
            return _kp(d, case["class_keys"]["T"])
        if path.startswith("titems[") and case["class_keys"]["TI"]:
            return _kp(d, case["class_keys"]["TI"])
        if path == "":
            break
        if path.startswith("items[") or path.startswith("titems["):
            path = ""
        else:
            path = path.rpartition(".")[0]
    return sandbox.default_key_path()


def _owner(position, idx=None):
    if position == "slist[]":
        return ""
    if position == "a.sdict{}":
        return "a"
    if position.startswith("items[]"):
        return "items[%d]" % idx
    if position.startswith("titems[]"):
        return "titems[%d]" % idx
    if position.startswith("a.moved[]"):
        return "a.moved[%d]" % idx
    return position.rpartition(".")[0]


def _decode(cc, fmt, data):
    if fmt == "json":
        return json.loads(data.decode())
    if fmt == "yaml":
        import yaml
        return yaml.safe_load(data.decode())
    if fmt == "pickle":
        return pickle.loads(data)
    if fmt == "bson":
        import bson
        return bson.loads(data)
    return cc.ConfigFormat.get("xml").loads(None, data)


def _strings(t):
    if isinstance(t, dict):
        for k, v in t.items():
            yield str(k)
            yield from _strings(v)
    elif isinstance(t, list):
        for v in t:
            yield from _strings(v)
    elif isinstance(t, str):
        yield t


def _lookup(tree, position, idx):
    if position == "slist[]":
        return tree["slist"][idx]
    if position == "a.sdict{}":
        return tree["a"]["sdict"]["k%d" % idx]
    node = tree
    for part in position.split("."):
        if part.endswith("[]"):
            node = node[part[:-2]][idx]
        else:
            node = node[part]
    return node


def _blank(t):
    if isinstance(t, dict):
        if set(t) >= {"method", "ciphertext"}:
            return dict(t, ciphertext="")
        return {k: _blank(v) for k, v in t.items()}
    if isinstance(t, list):
        return [_blank(v) for v in t]
    return t


def _ref_decrypt(keybytes, stored):
    raw = base64.b64decode(stored["ciphertext"], validate=True)
    if stored["method"] == "aes":
        return aesref.decrypt(keybytes, raw)
    return bytes(b ^ keybytes[i % 32] for i, b in enumerate(raw))


def exhaustive(tier):
    """Configuration A (key file kA) holds list items with secrets; configuration B of the same schema (key file kB) is
    offered A's item objects in a whole-list assignment that B REJECTS (for every kind of reason). A still saves under kA."""
    for cause in ("field-validator", "non-config-entry", "bad-leaf", "schema-validator", "required-missing"):
        for form in ("list", "tuple"):
            for fmt in ("json", "yaml", "pickle"):
                for method in ("best", "xor"):
                    for place in ("root", "nested"):
                        yield {"mode": "rejected-cross-offer", "cause": cause, "form": form, "fmt": fmt, "method": method, "place": place}
    for kind in ("configtype-field", "configtype-item", "list-item", "section"):
        for inspect_ in ("none", "key-filename", "values", "keyfile-object", "to_tree", "dumps"):
            for fmt in ("json", "pickle"):
                for method in ("best", "xor"):
                    yield {"mode": "inspected-then-attached", "kind": kind, "inspect": inspect_, "fmt": fmt, "method": method}


def _inspected_then_attached_case(case, R):
    """A free-standing configuration (a config-type instance, a list item built on its own, a section built from its sub-schema)
    is looked at - its documented key-file attribute read, its values read - and THEN attached under a root that names key
    file K: it uses K like every other descendant, and the default key file is neither created nor used."""
    cc = sandbox._state["cc"]
    kind, inspect_, fmt, method = case["kind"], case["inspect"], case["fmt"], case["method"]
    R.label("inspected-then-attached", "attached:" + kind)
    R.nontrivial = inspect_ != "none"
    part = cc.Schema()
    part.name = cc.StringField(default="n")
    part.token = cc.SecureField(method=method)
    part.deep.pin = cc.SecureField(method=method)
    T = cc.make_type(part, "AttachedPart", module=__name__)
    schema = cc.Schema()
    schema.label = cc.StringField(default="l")
    schema.one = T
    schema.rows = cc.ListField(part)
    schema.trows = cc.ListField(T)
    schema.sect = part
    with sandbox.CaseDir() as d:
        default_key = sandbox.default_key_path()
        if os.path.exists(default_key):
            os.unlink(default_key)
        k = os.path.join(d, "k.key")
        loose = T() if kind in ("configtype-field", "configtype-item") else part()
        loose.token = "token-plaintext-1"
        loose.deep.pin = "pin-plaintext-2"
        if inspect_ == "key-filename":
            _ = loose._key_filename
            _ = loose.deep._key_filename
        elif inspect_ == "values":
            _ = (loose.token, loose.deep.pin, loose.to_tree() if False else None)
        elif inspect_ == "keyfile-object":
            _ = loose._keyfile
        elif inspect_ == "to_tree":
            _ = loose.to_tree()            # (encrypts under the default key file - rightly so, it has no ancestor yet)
        elif inspect_ == "dumps":
            _ = loose.dumps("json")
        if os.path.exists(default_key):
            os.unlink(default_key)
        root = schema(key_filename=k)
        try:
            if kind == "configtype-field":
                root.one = loose
                read = lambda c: (c.one.token, c.one.deep.pin)
            elif kind == "configtype-item":
                root.trows = [loose]
                read = lambda c: (c.trows[0].token, c.trows[0].deep.pin)
            elif kind == "list-item":
                root.rows.append(loose) if root.rows is not None else setattr(root, "rows", [loose])
                read = lambda c: (c.rows[0].token, c.rows[0].deep.pin)
            else:
                root.sect = loose
                read = lambda c: (c.sect.token, c.sect.deep.pin)
        except Exception:
            R.label("attached:rejected")
            return
        names = (loose._key_filename, loose.deep._key_filename)
        R.check(names == (k, k), "key-use", "attached:resolves:" + kind,
                lambda: "a %s (%s before it was attached) under a root with key file k.key resolves its key file to %r" % (kind, inspect_, names))
        dest = os.path.join(d, "attached." + fmt)
        try:
            root.save(dest, fmt)
        except Exception as exc:
            R.fail("reload", "attached:save-raises", "save raised %r" % (exc,))
            return
        R.check(not os.path.exists(default_key), "key-use", "attached:default-key-created:" + kind,
                lambda: "saving a root that names k.key created the default key file (a %s was %s before it was attached)" % (kind, inspect_))
        try:
            if os.path.exists(default_key):
                os.unlink(default_key)
            fresh = schema(key_filename=k)
            fresh.load(dest, fmt)
            got, err = read(fresh), None
        except Exception as exc:
            got, err = None, exc
        R.check(got == ("token-plaintext-1", "pin-plaintext-2"), "reload", "attached:" + kind,
                lambda: "a %s (%s before it was attached): a new session with k.key loads its secrets as %r (%r)" % (kind, inspect_, got, err))
        if os.path.exists(default_key):
            os.unlink(default_key)


def _rejected_cross_offer_case(case, R):
    cc = sandbox._state["cc"]
    cause, form, fmt, method, place = case["cause"], case["form"], case["fmt"], case["method"], case["place"]
    R.label("rejected-cross-offer", "cross-offer:" + cause)

    def too_many(cfg, value):
        if cause == "field-validator" and len(value) > 2:
            raise ValueError("at most two servers")
        return value
    item = cc.Schema()
    item.name = cc.StringField(required=cause == "required-missing")
    item.port = cc.IntField(default=1)
    item.secret = cc.SecureField(method=method)
    if cause == "schema-validator":
        @cc.validator(item)
        def low_port(cfg):
            if cfg.port is not None and cfg.port > 1000:
                raise ValueError("port too high")
    schema = cc.Schema()
    holder = schema if place == "root" else schema.site.group
    holder.servers = cc.ListField(item, validator=too_many)
    schema.label = cc.StringField(default="l")
    owner = (lambda c: c) if place == "root" else (lambda c: c.site.group)
    with sandbox.CaseDir() as d:
        ka, kb = os.path.join(d, "a.key"), os.path.join(d, "b.key")
        a, b = schema(key_filename=ka), schema(key_filename=kb)
        owner(a).servers = [{"name": "one", "secret": "plain-one-secret"}, {"name": "two", "secret": "plain-two-secret"}]
        items = list(owner(a).servers)
        extra = {"field-validator": {"name": "three"}, "non-config-entry": 5, "bad-leaf": {"name": "x", "port": "not a number"},
                 "schema-validator": {"name": "y", "port": 5000}, "required-missing": {"port": 2}}[cause]
        offered = items + [extra]
        if form == "tuple":
            offered = tuple(offered)
        try:
            owner(b).servers = offered
            R.label("cross-offer:accepted")
            return  # (what an accepted hand-over means for A is not this property's business)
        except Exception:
            pass
        R.nontrivial = True
        dest = os.path.join(d, "a." + fmt)
        try:
            a.save(dest, fmt)
        except Exception as exc:
            R.fail("reload", "cross-offer:save-raises", "A.save after B rejected A's items raised %r" % (exc,))
            return
        R.check(not os.path.exists(kb), "key-use", "cross-offer:foreign-key-created",
                lambda: "B (key file b.key) rejected a list holding A's items (%s); saving A then created b.key" % cause)
        try:
            fresh = schema(key_filename=ka)
            fresh.load(dest, fmt)
            got = [s.secret for s in owner(fresh).servers]
            err = None
        except Exception as exc:
            got, err = None, exc
        R.check(got == ["plain-one-secret", "plain-two-secret"], "reload", "cross-offer:" + cause,
                lambda: "B (another key file) rejected a %s holding A's items (%s); A's saved %s file then loads with A's key file as %r (%r)" % (form, cause, fmt, got, err))


def run_case(case, R):
    if case.get("mode") == "inspected-then-attached":
        return _inspected_then_attached_case(case, R)
    if case.get("mode") == "rejected-cross-offer":
        return _rejected_cross_offer_case(case, R)
    cc = sandbox._state["cc"]
    fmt = case["fmt"]
    R.label("fmt:" + fmt)
    with sandbox.CaseDir() as d:
        home_default = sandbox.default_key_path()
        root_schema, T, TI = _build(cc, case, d)
        root_key = _kp(d, case["root_key"])
        cfg = root_schema(key_filename=root_key) if root_key else root_schema()
        assigned = {}
        if root_key:
            assigned[""] = root_key
            R.label("plan:root-key")
        if case["class_keys"]["T"] or case["class_keys"]["TI"]:
            R.label("plan:class-key")
        schema_sub_assigned = False

        def apply_assign(when, target_cfg, table):
            nonlocal schema_sub_assigned
            for sub, key, w in case["assign"]:
                if w == when:
                    _sub(target_cfg, sub)._key_filename = _kp(d, key)
                    table[sub] = _kp(d, key)
                    R.label("plan:sub-assign")
                    schema_sub_assigned = True  # (any sub-configuration, config types included)

        apply_assign("early", cfg, assigned)

        # ---- secret values ---------------------------------------------------------------------------------------
        n_items = case["n_items"]
        for i in range(n_items):
            cfg.items.append({"name": "item%d" % i}) if cfg.items is not None else setattr(cfg, "items", [{"name": "item0"}])
            if cfg.titems is None:
                cfg.titems = [TI()]
            else:
                cfg.titems.append(TI())
        secrets = {}  # (position, idx) -> plaintext
        for k, (pi, text, _method) in enumerate(case["values"]):
            pos = POSITIONS[pi]
            text = "%d:%s" % (k, text)  # distinct per position
            idx = k % n_items if "[]" in pos else None
            if pos == "slist[]":
                cur = list(cfg.slist or [])
                idx = len(cur)
                cfg.slist = cur + [text]
                secrets[(pos, idx)] = text
                R.label("secret:typed-list-item")
                continue
            if pos == "a.moved[].s6":
                # the item first belongs to the root's list (and gets its secret there), then it is moved into the list
                # of the nested configuration, which may resolve to another key file
                cfg.items.append({"name": "mv%d" % k})
                moving = cfg.items[len(cfg.items) - 1]
                moving.s6 = text
                cfg.items.pop()
                if cfg.a.moved is None:
                    cfg.a.moved = [moving]
                else:
                    cfg.a.moved.append(moving)
                idx = len(cfg.a.moved) - 1
                secrets[(pos, idx)] = text
                R.label("secret:moved-item")
                continue
            if pos == "a.sdict{}":
                idx = k
                cur = dict(cfg.a.sdict or {})
                cur["k%d" % idx] = text
                cfg.a.sdict = cur
                secrets[(pos, idx)] = text
                R.label("secret:typed-dict-entry")
                continue
            secrets[(pos, idx)] = text
            if pos.startswith("items[]"):
                cfg.items[idx].s6 = text
            elif pos.startswith("titems[]"):
                cfg.titems[idx].s7 = text
            else:
                owner = _sub(cfg, pos.rpartition(".")[0]) if "." in pos else cfg
                setattr(owner, pos.rpartition(".")[2], text)
            R.label({"s0": "secret:root", "a.b.c.s3": "secret:depth3", "t.s4": "secret:configtype", "t.u.s5": "secret:configtype",
                     "items[].s6": "secret:list-item", "titems[].s7": "secret:ct-list-item"}.get(pos, "secret:nested"))
        apply_assign("before_save", cfg, assigned)

        ever = {"default": False}

        def predicted(table):
            return {(pos, idx): _model_key(case, d, _owner(pos, idx), table) for (pos, idx) in secrets}

        def check_saved(data, table, site, recorder):
            keys = predicted(table)
            try:
                tree = _decode(cc, fmt, data)
            except Exception as exc:
                R.fail("structure", site + ":decode", "independent decoder failed on the saved %s document: %r" % (fmt, exc))
                return
            # what the document looks like with every ciphertext blanked: text that also occurs there is structure
            try:
                skeleton = cc.ConfigFormat.get(fmt).dumps(None, _blank(tree))
            except Exception:
                skeleton = b""
            for (pos, idx), text in secrets.items():
                try:
                    stored = _lookup(tree, pos, idx)
                except Exception as exc:
                    R.fail("structure", site + ":missing", "no value at %s[%s] in the saved document (%r)" % (pos, idx, exc))
                    continue
                ok = isinstance(stored, dict) and stored.get("method") in ("aes", "xor") and isinstance(stored.get("ciphertext"), str) and set(stored) == {"method", "ciphertext"}
                if not R.check(ok, "structure", site + ":shape", lambda: "secret at %s saved as %r" % (pos, stored)):
                    continue
                kpath = keys[(pos, idx)]
                try:
                    with open(kpath, "rb") as fp:
                        kbytes = fp.read()
                except OSError:
                    kbytes = None
                where = "default" if kpath == home_default else os.path.basename(kpath)
                if not R.check(kbytes is not None and len(kbytes) == 32, "right-key", site + ":keyfile-missing",
                               lambda: "the key file the model predicts for %s (%s) does not exist / is not a key" % (pos, where)):
                    continue
                try:
                    plain = _ref_decrypt(kbytes, stored)
                except Exception as exc:
                    plain = exc
                R.check(plain == text.encode(), "right-key", site,
                        lambda: "secret at %s[%s] does not decrypt to its plaintext under %s (reference cipher gives %r)" % (pos, idx, where, plain if not isinstance(plain, bytes) else plain[:40]))
                distinctive = len(text) >= 8 and any(ch not in B64 for ch in text)
                if distinctive:
                    R.check(text.encode() not in data, "leak", site + ":raw", lambda: "plaintext %r occurs in the saved bytes" % text)
                    R.check(not any(text in s for s in _strings(tree)), "leak", site + ":decoded", lambda: "plaintext %r occurs in the decoded document" % text)
                    # fragments: any 8-character window of the plaintext that cannot be base64 text by accident
                    frags = [text[i:i + 8] for i in range(0, max(len(text) - 7, 0))]
                    frags = [f for f in frags if any(ch not in B64 for ch in f) and f.encode() not in skeleton][:40]
                    strs = list(_strings(tree))
                    hit = [f for f in frags if f.encode() in data or any(f in s for s in strs)]
                    R.check(not hit, "leak", site + ":fragment", lambda: "fragment %r of the plaintext occurs in the saved document" % hit[:1])
            # files: only predicted key files and the destination inside the sandbox
            allowed = set(keys.values()) | {dest}
            touched = {p for p in recorder.paths() if p.startswith(d + os.sep) or p.startswith(sandbox.home() + os.sep)}
            R.check(touched <= allowed, "files", site, lambda: "save touched %r, model allows %r" % (sorted(os.path.basename(p) for p in touched - allowed), sorted(os.path.basename(p) for p in allowed)))
            uses_default = home_default in keys.values()
            ever["default"] = ever["default"] or uses_default
            uses_default = ever["default"]  # once legitimately created it stays on disk
            if not uses_default:
                R.label("default-key-must-not-exist")
            else:
                R.label("plan:default")
            R.check(uses_default or not os.path.exists(home_default), "files", site + ":default-key-created",
                    "the default key file was created although no configuration with a secret resolves to it")

        # ---- save ---------------------------------------------------------------------------------------------------
        dest = os.path.join(d, "config." + fmt)
        with sandbox.Recorder() as rec:
            try:
                cfg.save(dest, fmt)
            except Exception as exc:
                R.fail("save-raises", fmt, "save raised %r" % (exc,))
                return
        with open(dest, "rb") as fp:
            data = fp.read()
        check_saved(data, assigned, "save", rec)
        if any(v != home_default for v in predicted(assigned).values()) and any(pos != "s0" for pos, _ in secrets):
            R.nontrivial = True

        # ---- reload in a new session ------------------------------------------------------------------------------
        schema2, T2, TI2 = _build(cc, case, d)
        cfg2 = schema2(key_filename=root_key) if root_key else schema2()
        table2 = {"": root_key} if root_key else {}
        for when in ("early", "before_save"):
            for sub, key, w in case["assign"]:
                if w == when:
                    _sub(cfg2, sub)._key_filename = _kp(d, key)
                    table2[sub] = _kp(d, key)
        with sandbox.Recorder() as rec2:
            try:
                cfg2.load(dest, fmt)
                err = None
            except Exception as exc:
                err = exc
        sub_plan = any(w in ("early", "before_save") for _, _, w in case["assign"])
        problems = []
        if err is not None:
            problems.append("loading the saved file in a new session raised %r" % (err,))
        else:
            for (pos, idx), text in secrets.items():
                try:
                    if pos == "slist[]":
                        got = cfg2.slist[idx]
                    elif pos == "a.sdict{}":
                        got = cfg2.a.sdict["k%d" % idx]
                    elif pos.startswith("items[]"):
                        got = cfg2.items[idx].s6
                    elif pos.startswith("titems[]"):
                        got = cfg2.titems[idx].s7
                    elif pos.startswith("a.moved[]"):
                        got = cfg2.a.moved[idx].s6
                    else:
                        got = _sub(cfg2, pos)
                except Exception as exc:
                    got = exc
                if got != text:
                    problems.append("%s[%s] reads %r after reload, plaintext was %r" % (pos, idx, got, text))
        allowed = set(predicted(assigned).values()) | {dest}
        touched = {p for p in rec2.paths() if p.startswith(d + os.sep) or p.startswith(sandbox.home() + os.sep)}
        if not touched <= allowed:
            problems.append("load touched %r, model allows %r" % (sorted(os.path.basename(p) for p in touched - allowed), sorted(os.path.basename(p) for p in allowed)))
        # one call-site class for plans that assign a key file to a sub-configuration before loading: the load replaces
        # that sub-configuration object and the assignment is lost (recorded known finding)
        R.check(not problems, "reload", "subconfig-key-assigned" if sub_plan else "plain-plan", lambda: "; ".join(problems)[:500])

        # ---- the configuration that was LOADED gets another root key file and is saved again, secrets untouched -----------
        if err is None and not problems and not sub_plan and case.get("rekey_loaded"):  # (sub-configuration keys do not survive a load: known finding)
            R.label("plan:rekey-loaded")
            if not ever["default"] and os.path.exists(home_default):
                os.unlink(home_default)
            cfg2._key_filename = _kp(d, "kloaded")
            table3 = dict(table2)
            table3[""] = _kp(d, "kloaded")
            with sandbox.Recorder() as rec5:
                try:
                    data5 = cfg2.dumps(fmt)
                except Exception as exc:
                    data5 = None
                    R.fail("save-raises", fmt + ":rekey-loaded", "dumps of the loaded configuration after re-keying raised %r" % (exc,))
            if data5 is not None:
                check_saved(data5, table3, "rekey-loaded", rec5)

        # ---- re-key after the first save, save again -----------------------------------------------------------------
        late = [a for a in case["assign"] if a[2] == "after_save"]
        if late or case["rekey_root"]:
            R.label("plan:rekey")
            if not ever["default"] and os.path.exists(home_default):
                os.unlink(home_default)  # created by the reload stage (already reported there); judge this stage on its own
            if case["rekey_root"]:
                cfg._key_filename = _kp(d, case["rekey_root"])
                assigned[""] = _kp(d, case["rekey_root"])
            apply_assign("after_save", cfg, assigned)
            with sandbox.Recorder() as rec3:
                try:
                    data2 = cfg.dumps(fmt)
                except Exception as exc:
                    R.fail("save-raises", fmt + ":rekey", "dumps after re-keying raised %r" % (exc,))
                    return
            check_saved(data2, assigned, "rekey", rec3)

        # ---- the key files get new content on disk (rotation); optionally after a save that failed on a broken key file ----
        if case.get("rotate"):
            kfiles = sorted(p for p in set(predicted(assigned).values()) if os.path.isfile(p))
            if not kfiles:
                return
            R.label("plan:rotate")
            if not ever["default"] and os.path.exists(home_default) and home_default not in kfiles:
                os.unlink(home_default)
            if case["rotate"] == "after-failed-save":
                saved = {}
                for p in kfiles:
                    with open(p, "rb") as fp:
                        saved[p] = fp.read()
                    with open(p, "wb") as fp:
                        fp.write(b"not a key")
                try:
                    cfg.dumps(fmt)
                    failed = False
                except Exception:
                    failed = True
                for p, content in saved.items():
                    with open(p, "wb") as fp:
                        fp.write(content)
                if failed:
                    R.label("plan:rotate-after-failed-save")
                try:
                    cfg.dumps(fmt)  # the key files are whole again: this save succeeds
                except Exception as exc:
                    R.fail("save-raises", fmt + ":after-repair", "dumps after the key files were repaired raised %r" % (exc,))
                    return
            for n, p in enumerate(kfiles):
                with open(p, "wb") as fp:
                    fp.write(bytes((17 * n + 5 * j + 3) % 256 for j in range(32)))
            with sandbox.Recorder() as rec4:
                try:
                    data3 = cfg.dumps(fmt)
                except Exception as exc:
                    R.fail("save-raises", fmt + ":rotated", "dumps after the key files were rotated raised %r" % (exc,))
                    return
            check_saved(data3, assigned, "rotated", rec4)
