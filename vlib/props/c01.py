"""C01 — every value a configuration holds satisfies its field's declared constraints."""
import os

from hypothesis import strategies as st

from .. import ops, refmodel, sandbox, specs, worlds
from ..refmodel import A, REJ, U

ID = "C01"
LEVEL = "exploration"
DESIGN_REF = "DESIGN.md §4 C01"
RULE = (
    "Model-based stateful testing over generated schemas. A case = (schema spec, history). The spec nests "
    "sub-schemas, config types, lists of schemas / config types, dynamic schemas, virtual fields, instance "
    "methods and all 18 built-in field kinds with random options and valid normal-form defaults. The history "
    "(<= 25 quick / 70 thorough ops) uses every public mutating route: attribute and dotted-path assignment, "
    "constructor keywords, assigning a map or configuration to a sub-configuration, load_tree, loads in a random "
    "format, cmdline_args_override on a parsed generated command line, reset_value, assignment to read-only "
    "members, dynamic extra fields, and in-place mutation of typed lists (append/insert/extend/[i]=/[a:b]=/+=/*=/"
    "sort/reverse/pop/clear, from lists and iterators), typed dicts ([k]=/update in 3 forms/setdefault/|=/pop/"
    "clear) and lists of configurations (append map or configuration, insert, extend, +=, [i]=, item field "
    "assignment); arguments are valid, boundary, invalid and wrongly typed (about half accepted). Oracle after "
    "EVERY op: (sweep) every value readable by attribute, item access and iteration - at any depth, list items "
    "and dict entries included - is unset or accepted by the reference validator and already in normal form; "
    "(read-back) after an op that returned, each addressed field reads as the reference normal form of its "
    "argument; (no-collateral) an accepted single assignment/reset changes nothing else in the deep snapshot. "
    "Non-trivial = an accepted mutation through a non-attribute route AND a rejected op AND a schema with a "
    "container (sub-schema / typed list / typed dict / list of schemas)."
)
ASSUMPTIONS = [
    "vlib/refmodel.py reference validators; 'required' emptiness is not one of C01's constraints (C11 owns it)",
    "declared defaults are generated already valid and normal (the property's precondition)",
    "any Config object is accepted for a sub-configuration slot (the library declares no constraint there)",
]
REQUIRED = ["op:setattr", "op:setitem", "op:ctor", "op:load_tree", "op:loads", "op:assign_sub", "op:cmdline", "op:reset",
            "op:listop", "op:dictop", "op:slistop", "outcome:ok", "outcome:raised", "has:schemalist", "has:configtype"]
LEVEL_TEXT = (
    "Generated schemas x generated histories with an invariant sweep after every step against an independent "
    "reference validator; shows the property on the explored histories and kills mutants that drop validation on "
    "one route (insert, |=, load_tree, update fast path) or store the raw instead of the validated value."
)
LEVEL_NOTE = "Trusted: CPython, Hypothesis, vlib/refmodel.py; format layer (C04) used only to carry documents."
TECHNIQUE = "model-based stateful property testing (Hypothesis schema + op-list histories, invariant after each step)"


def selftest():
    refmodel.selftest()


def budget(tier):
    if tier == "quick":
        return {"cases": 700, "shards": 3}
    return {"cases": 5000, "shards": 16}


STRICT_ITEMS = [
    {"kind": "int", "opts": {"min": 0, "max": 10}}, {"kind": "port", "opts": {}}, {"kind": "float", "opts": {"min": 0.5}},
    {"kind": "str", "opts": {"choices": ["a", "b", "c"]}}, {"kind": "str", "opts": {"transform_case": "upper", "max_len": 3}},
    {"kind": "ipv4", "opts": {}}, {"kind": "host", "opts": {"allow_ipv4": False}}, {"kind": "loglevel", "opts": {}},
    {"kind": "ipv4net", "opts": {"max_prefix_len": 8}}, {"kind": "url", "opts": {}},
]
LOOSE_OF = {"int": "int", "port": "int", "float": "float"}


def _twin(spec, which=0):
    """Every schema gets a strict typed list and a loose one of the same stored Python type (a value that is fine
    for one and invalid for the other can then travel between them), also as typed dicts."""
    item = dict(STRICT_ITEMS[which % len(STRICT_ITEMS)], req=False, validator=None)
    loose = {"kind": LOOSE_OF.get(item["kind"], "str"), "opts": {}, "req": False, "validator": None}
    base = {"req": False, "validator": None, "opts": {}, "default": {"mode": "none"}}
    extra = [
        dict(base, kind="list", key="zzstrict", item=item),
        dict(base, kind="list", key="zzloose", item=loose, twin_of="zzstrict"),
        dict(base, kind="dict", key="zzdstrict", keyf=None, valuef=item),
        dict(base, kind="dict", key="zzdloose", keyf=None, valuef=loose, twin_of="zzdstrict"),
        # a scalar whose constraints interact: the length limit applies to the case-transformed text
        dict(base, kind="str", key="zzcase", opts={"transform_case": ["upper", "lower"][which % 2], "max_len": 2 + which % 3, "transform_strip": [None, True, "x"][which % 3]}),
    ]
    # an integer field whose bound is not an integer: the values between the bound and its truncation are invalid
    extra.append(dict(base, kind=["int", "port"][which % 2], key="zzfrac", opts=[{"min": 0.5}, {"max": 1.5, "min": 0}, {"min": -0.5, "max": 9.5}][which % 3] if which % 2 == 0 else {"min": 0.5}))
    # a bytes field (and a typed list of bytes): offered bytes-like objects that are not bytes
    extra.append(dict(base, kind="bytes", key="zzblob", opts={"encoding": ["base64", "hex"][which % 2]}))
    extra.append(dict(base, kind="list", key="zzblobs", item={"kind": "bytes", "opts": {"encoding": "hex"}, "req": False, "validator": None}))
    # a list of configurations whose items carry a typed dict and a typed list (values travel between two items)
    extra.append({"kind": "schemalist", "key": "zzrows", "req": False, "configtype": bool(which % 2), "children": [
        dict(base, kind="str", key="name"),
        dict(base, kind="dict", key="limits", keyf={"kind": "str", "opts": {}, "req": False, "validator": None}, valuef={"kind": "int", "opts": {"max": 10}, "req": False, "validator": None}),
        dict(base, kind="list", key="tags", item={"kind": "int", "opts": {"max": 10}, "req": False, "validator": None})]})
    # a plain nested section (two levels, nothing required): options of the generated command line that address one of its
    # fields while its siblings hold non-default values
    sub = {"kind": "schema", "key": "zzsec", "req": False, "children": [
        dict(base, kind="port", key="port"), dict(base, kind="host", key="host", opts={"allow_ipv4": True}), dict(base, kind="bool", key="on"),
        {"kind": "schema", "key": "tls", "req": False, "children": [dict(base, kind="int", key="ver", opts={"min": 1, "max": 3}), dict(base, kind="str", key="cert")]},
    ]}
    extra.append(sub)
    keep = [c for c in spec["children"] if not c["key"].startswith("zz")]
    out = dict(spec, children=keep + extra)
    if which % 3 == 0:
        out = _no_required(out)  # every third schema has no required field at all (a tree load then ends in a passing validate())
    return out


def _no_required(node):
    kids = []
    for c in node["children"]:
        if "children" in c:
            c = _no_required(c)
        if c.get("req"):
            c = dict(c, req=False)
        kids.append(c)
    return dict(node, children=kids)


def strategy(tier):
    n = 25 if tier == "quick" else 70
    def hist(spec):
        base = ops.single_op(spec)
        leaves = ops.spec_leaves(spec)
        twins = [(i, nd) for i, (p, nd) in enumerate(leaves) if nd.get("twin_of") and len(p) == 1]
        if not twins:
            return st.fixed_dictionaries({"spec": st.just(spec), "ops": ops.op_strategy(spec, n)})

        def transfer_for(t):
            ti, tnode = t
            si = next(i for i, (p, nd) in enumerate(leaves) if p == (tnode["twin_of"],))
            # fill the loose twin, then offer what it holds to the strict field (whole assignment or in-place merge)
            return st.fixed_dictionaries({"op": st.just("copy_from"), "leaf": st.just(si), "src": st.just(ti), "fill": ops.value_for(tnode),
                                          "how": st.sampled_from(["assign", "assign", "extend", "iadd", "update"])})
        transfer = st.sampled_from(twins).flatmap(transfer_for)
        # text whose case change alters its length, at and around the length limit of the case-transforming field
        ci = next(i for i, (p, nd) in enumerate(leaves) if p == ("zzcase",))
        grow = st.tuples(st.sampled_from(["\u00df", "\ufb01", "\u0130", "\u0149", "a\u00df", "\u00dfx"]), st.integers(1, 4)).map(lambda t: (t[0] * t[1])[:5])
        expand = st.fixed_dictionaries({"op": st.sampled_from(["setattr", "setitem"]), "leaf": st.just(ci), "value": grow})
        fi = next(i for i, (p, nd) in enumerate(leaves) if p == ("zzfrac",))
        frac = st.fixed_dictionaries({"op": st.sampled_from(["setattr", "setitem"]), "leaf": st.just(fi), "value": st.sampled_from([0, "0", 1, 2, -1, 0.0, 1.0, 10, 9])})
        from ..codec import Opaque
        bi = next(i for i, (p, nd) in enumerate(leaves) if p == ("zzblob",))
        bli = next(i for i, (p, nd) in enumerate(leaves) if p == ("zzblobs",))
        odd = st.sampled_from([Opaque("bytearray:6162"), Opaque("memoryview:6162"), Opaque("bytearray:"), b"ab", "ab"])
        blob = st.one_of(st.fixed_dictionaries({"op": st.sampled_from(["setattr", "setitem"]), "leaf": st.just(bi), "value": odd}),
                         st.fixed_dictionaries({"op": st.sampled_from(["setattr", "setitem"]), "leaf": st.just(bli), "value": st.lists(odd, min_size=1, max_size=2)}))
        sec = {p: i for i, (p, nd) in enumerate(leaves) if p[0] == "zzsec"}
        fill = st.sampled_from([(("zzsec", "host"), "www.example.org"), (("zzsec", "tls", "cert"), "cert.pem"), (("zzsec", "tls", "ver"), 3), (("zzsec", "port"), 8443), (("zzsec", "on"), True)]).map(
            lambda t: {"op": "setitem", "leaf": sec[t[0]], "value": t[1]})
        over = st.lists(st.sampled_from([(("zzsec", "port"), "443"), (("zzsec", "tls", "ver"), "2"), (("zzsec", "host"), "h.example"), (("zzsec", "on"), True), (("zzsec", "tls", "cert"), "c2")]), min_size=1, max_size=2).map(
            lambda l: {"op": "cmdline", "args": [(sec[p], v) for p, v in l], "ignore": None})
        return st.fixed_dictionaries({"spec": st.just(spec), "ops": st.lists(ops.weighted((12, base), (4, transfer), (2, expand), (2, fill), (2, over), (1, frac), (1, blob), (1, st.fixed_dictionaries({"op": st.just("row_transfer"), "field": st.sampled_from(["limits", "tags"]), "src": st.integers(0, 2), "dst": st.integers(0, 2)}))), min_size=2, max_size=n)})
    return st.tuples(worlds.schema_spec(tier), st.integers(0, len(STRICT_ITEMS) - 1)).map(lambda t: _twin(t[0], t[1])).flatmap(hist)


def _without(snap, path):
    """Copy of a snapshot with the entry at ``path`` removed."""
    if not path:
        return snap
    out = dict(snap)
    key = path[0]
    if key not in out:
        return out
    if len(path) == 1:
        del out[key]
        return out
    entry = dict(out[key])
    v = entry["v"]
    if isinstance(v, tuple) and v[0] == "cfg":
        entry["v"] = ("cfg", _without(v[1], path[1:]))
        entry.pop("defined", None)
    out[key] = entry
    return out


def _walk_tree(node, tree, path=()):
    """(path, leaf node, basic value) for every leaf value given in a basic tree."""
    if not isinstance(tree, dict):
        return
    by_key = {c["key"]: c for c in node["children"]}
    for key, val in tree.items():
        child = by_key.get(key)
        if child is None:
            continue
        if child["kind"] in ("schema", "configtype"):
            yield from _walk_tree(child, val, path + (key,))
        elif child["kind"] in ("schemalist", "virtual", "method"):
            continue
        else:
            yield path + (key,), child, val


def _has(spec, pred):
    for child in spec["children"]:
        if pred(child):
            return True
        if child["kind"] in ("schema", "configtype", "schemalist") and _has(child, pred):
            return True
    return False


def run_case(case, R):
    cc = sandbox._state["cc"]
    spec = case["spec"]
    with sandbox.CaseDir() as d:
        world = worlds.World(cc, spec)
        state = {"cfg": world.schema(key_filename=os.path.join(d, "key")), "keyfile": os.path.join(d, "key")}
        if _has(spec, lambda c: c["kind"] == "schemalist"):
            R.label("has:schemalist")
        if _has(spec, lambda c: c["kind"] == "configtype"):
            R.label("has:configtype")
        has_container = _has(spec, lambda c: c["kind"] in ("schema", "configtype", "schemalist") or (c["kind"] == "list" and c.get("item")) or (c["kind"] == "dict" and (c.get("keyf") or c.get("valuef"))))
        worlds.sweep(world, state["cfg"], R, "construction")
        accepted_nonattr = rejected = False

        for op in case["ops"]:
            name = op["op"]
            cfg = state["cfg"]
            if name == "row_transfer":
                # the typed dict / list one item holds is assigned to the same field of another item of the same list; an
                # accepted in-place edit of the receiver afterwards "changes no other field" - the giver's included
                try:
                    cfg.zzrows = [{"name": "r0", "limits": {"cpu": 1, "mem": 2}, "tags": [1, 2]}, {"name": "r1"}, {"name": "r2", "limits": {"x": 3}, "tags": [3]}]
                    src, dst = cfg.zzrows[op["src"]], cfg.zzrows[op["dst"]]
                    if src is dst:
                        continue
                    setattr(dst, op["field"], getattr(src, op["field"]))
                    giver = cc.asdict(src)
                    mine = getattr(dst, op["field"])
                    if isinstance(mine, dict):
                        mine["added"] = 7
                    elif isinstance(mine, list):
                        mine.append(7)
                    else:
                        continue
                except Exception:
                    continue
                R.label("op:row_transfer")
                R.check(cc.asdict(src) == giver, "collateral", "row_transfer:" + op["field"],
                        lambda: "zzrows[%d].%s was assigned from zzrows[%d]; an in-place edit of it changed the giver: %r -> %r" % (op["dst"], op["field"], op["src"], giver, cc.asdict(src)))
                worlds.sweep(world, cfg, R, "row_transfer")
                continue
            before = worlds.snapshot(cfg, cc)
            out = ops.apply_op(world, state, op)
            if out.kind == "skipped":
                continue
            R.label("op:" + name, "outcome:" + out.kind)
            cfg = state["cfg"]
            info = out.info
            if out.kind == "raised":
                rejected = True
            elif name != "setattr":
                accepted_nonattr = True

            if out.kind == "ok":
                if name in ("setattr", "setitem") and info["node"]["kind"] != "schemalist":
                    node = info["node"]
                    verdict = refmodel.ref(node, info["value"], world.ctx)
                    got = worlds.get_path(cfg, out.target)
                    if verdict[0] == U:
                        R.unknown += 1
                    elif verdict[0] == A:
                        R.check(ops.read_matches(node, got, verdict), "read-back", "%s:%s" % (name, node["kind"]),
                                lambda: "%s = %r accepted, reads back %r, normal form is %r" % (".".join(out.target), info["value"], got, verdict[1]))
                    # (a value the reference rejects but the route accepted is only a C01 matter if what is then
                    #  *held* is invalid - the sweep below decides that; exactness of validation is C05's)
                    after = worlds.snapshot(cfg, cc)
                    R.check(_without(before, out.target) == _without(after, out.target), "collateral", name,
                            lambda: "assigning %s changed something else: %s" % (".".join(out.target), worlds.diff(_without(before, out.target), _without(after, out.target))))
                elif name == "reset":
                    after = worlds.snapshot(cfg, cc)
                    R.check(_without(before, out.target) == _without(after, out.target), "collateral", name,
                            lambda: "resetting %s changed something else: %s" % (".".join(out.target), worlds.diff(_without(before, out.target), _without(after, out.target))))
                elif name == "ctor":
                    for key, value in info["kw"].items():
                        node = info["by_key"][key]
                        if node["kind"] == "schemalist":
                            continue
                        verdict = refmodel.ref(node, value, world.ctx)
                        if verdict[0] == A:
                            got = getattr(cfg, key)
                            R.check(ops.read_matches(node, got, verdict), "read-back", "ctor:" + node["kind"],
                                    lambda: "ctor %s=%r reads back %r, normal form %r" % (key, value, got, verdict[1]))
                elif name in ("load_tree", "loads") or (name == "assign_sub" and info.get("how") == "dict"):
                    base = () if name != "assign_sub" else out.target
                    root_node = spec if name != "assign_sub" else info["node"]
                    tree = info["tree"] if name != "assign_sub" else info["value"]
                    for path, node, basic in _walk_tree(root_node, tree):
                        verdict = ops.expected_after_load(node, basic, world.ctx)
                        if verdict[0] == A:
                            try:
                                got = worlds.get_path(cfg, base + path)
                            except Exception as exc:
                                R.fail("read-back", name + ":read", "reading %s raised %r" % (".".join(base + path), exc))
                                continue
                            R.check(ops.read_matches(node, got, verdict), "read-back", "%s:%s" % (name, node["kind"]),
                                    lambda: "%s loaded %s=%r, reads back %r, normal form %r" % (name, ".".join(base + path), basic, got, verdict[1]))
                elif name == "cmdline":
                    final = {}
                    for path, (node, text) in info["supplied"].items():
                        if info["ignore"] == ".".join(path):
                            continue
                        final[path] = (node, text)
                    for path, (node, text) in final.items():
                        verdict = refmodel.ref(node, text, world.ctx)
                        if verdict[0] == A:
                            got = worlds.get_path(cfg, path)
                            R.check(ops.read_matches(node, got, verdict), "read-back", "cmdline:" + node["kind"],
                                    lambda: "command line %r: %s reads back %r, normal form %r" % (info["argv"], ".".join(path), got, verdict[1]))
                    # ... and nothing but the supplied fields changes (siblings of a nested option included)
                    b2, a2 = before, worlds.snapshot(cfg, cc)
                    for path in final:
                        b2, a2 = _without(b2, path), _without(a2, path)
                    R.check(b2 == a2, "collateral", "cmdline", lambda: "command line %r changed fields it does not name: %s" % (info["argv"], worlds.diff(b2, a2)))
            worlds.sweep(world, cfg, R, name + ("" if out.kind == "ok" else ":rejected"))

        if accepted_nonattr and rejected and has_container:
            R.nontrivial = True
