"""C01 — every value a configuration holds satisfies its field's declared constraints."""
import json
import os

from hypothesis import strategies as st

from .. import ops, refmodel, sandbox, specs, worlds
from ..refmodel import A, REJ, U, value_eq

ID = "C01"
LEVEL = "exploration"
DESIGN_REF = "DESIGN.md §4 C01"
RULE = (
    "Model-based stateful testing over generated schemas. A case = (schema spec, history). The spec nests "
    "sub-schemas, config types, lists of schemas / config types, dynamic schemas, virtual fields, instance "
    "methods and all 18 built-in field kinds with random options and valid normal-form defaults. The history "
    "(<= 25 quick / 70 thorough ops) uses every public mutating route: attribute and dotted-path assignment, "
    "constructor keywords, assigning a map or configuration to a sub-configuration, load_tree, loads in a random "
    "format, cmdline_args_override on a parsed generated command line, reset_value, assignment to read-only "
    "members, dynamic extra fields, and in-place mutation of typed lists (append/insert/extend/[i]=/[a:b]=/+=/*=/"
    "sort/reverse/pop/clear, from lists and iterators), typed dicts ([k]=/update in 3 forms/setdefault/|=/pop/"
    "clear) and lists of configurations (append map or configuration, insert, extend, +=, [i]=, item field "
    "assignment); arguments are valid, boundary, invalid and wrongly typed (about half accepted). Oracle after "
    "EVERY op: (sweep) every value readable by attribute, item access and iteration - at any depth, list items "
    "and dict entries included - is unset or accepted by the reference validator and already in normal form; "
    "(read-back) after an op that returned, each addressed field reads as the reference normal form of its "
    "argument; (no-collateral) an accepted single assignment/reset changes nothing else in the deep snapshot. "
    "Non-trivial = an accepted mutation through a non-attribute route AND a rejected op AND a schema with a "
    "container (sub-schema / typed list / typed dict / list of schemas)."
)
ASSUMPTIONS = [
    "vlib/refmodel.py reference validators; 'required' emptiness is not one of C01's constraints (C11 owns it)",
    "declared defaults are generated already valid and normal (the property's precondition)",
    "any Config object is accepted for a sub-configuration slot (the library declares no constraint there)",
]
REQUIRED = ["op:setattr", "op:setitem", "op:ctor", "op:load_tree", "op:loads", "op:assign_sub", "op:cmdline", "op:reset",
            "op:listop", "op:dictop", "op:slistop", "outcome:ok", "outcome:raised", "has:schemalist", "has:configtype"]
LEVEL_TEXT = (
    "Generated schemas x generated histories with an invariant sweep after every step against an independent "
    "reference validator; shows the property on the explored histories and kills mutants that drop validation on "
    "one route (insert, |=, load_tree, update fast path) or store the raw instead of the validated value."
)
LEVEL_NOTE = "Trusted: CPython, Hypothesis, vlib/refmodel.py; format layer (C04) used only to carry documents."
TECHNIQUE = "model-based stateful property testing (Hypothesis schema + op-list histories, invariant after each step)"


def selftest():
    refmodel.selftest()


def budget(tier):
    if tier == "quick":
        return {"cases": 700, "shards": 3}
    return {"cases": 5000, "shards": 16}


STRICT_ITEMS = [
    {"kind": "int", "opts": {"min": 0, "max": 10}}, {"kind": "port", "opts": {}}, {"kind": "float", "opts": {"min": 0.5}},
    {"kind": "str", "opts": {"choices": ["a", "b", "c"]}}, {"kind": "str", "opts": {"transform_case": "upper", "max_len": 3}},
    {"kind": "ipv4", "opts": {}}, {"kind": "host", "opts": {"allow_ipv4": False}}, {"kind": "loglevel", "opts": {}},
    {"kind": "ipv4net", "opts": {"max_prefix_len": 8}}, {"kind": "url", "opts": {}},
]
LOOSE_OF = {"int": "int", "port": "int", "float": "float"}


def _twin(spec, which=0):
    """Every schema gets a strict typed list and a loose one of the same stored Python type (a value that is fine
    for one and invalid for the other can then travel between them), also as typed dicts."""
    item = dict(STRICT_ITEMS[which % len(STRICT_ITEMS)], req=False, validator=None)
    loose = {"kind": LOOSE_OF.get(item["kind"], "str"), "opts": {}, "req": False, "validator": None}
    base = {"req": False, "validator": None, "opts": {}, "default": {"mode": "none"}}
    extra = [
        dict(base, kind="list", key="zzstrict", item=item),
        dict(base, kind="list", key="zzloose", item=loose, twin_of="zzstrict"),
        dict(base, kind="dict", key="zzdstrict", keyf=None, valuef=item),
        dict(base, kind="dict", key="zzdloose", keyf=None, valuef=loose, twin_of="zzdstrict"),
        # a scalar whose constraints interact: the length limit applies to the case-transformed text
        dict(base, kind="str", key="zzcase", opts={"transform_case": ["upper", "lower"][which % 2], "max_len": 2 + which % 3, "transform_strip": [None, True, "x"][which % 3]}),
    ]
    # an integer field whose bound is not an integer: the values between the bound and its truncation are invalid
    extra.append(dict(base, kind=["int", "port"][which % 2], key="zzfrac", opts=[{"min": 0.5}, {"max": 1.5, "min": 0}, {"min": -0.5, "max": 9.5}][which % 3] if which % 2 == 0 else {"min": 0.5}))
    # a bytes field (and a typed list of bytes): offered bytes-like objects that are not bytes
    extra.append(dict(base, kind="bytes", key="zzblob", opts={"encoding": ["base64", "hex"][which % 2]}))
    extra.append(dict(base, kind="list", key="zzblobs", item={"kind": "bytes", "opts": {"encoding": "hex"}, "req": False, "validator": None}))
    # a list of configurations whose items carry a typed dict and a typed list (values travel between two items)
    extra.append({"kind": "schemalist", "key": "zzrows", "req": False, "configtype": bool(which % 2), "children": [
        dict(base, kind="str", key="name"),
        dict(base, kind="dict", key="limits", keyf={"kind": "str", "opts": {}, "req": False, "validator": None}, valuef={"kind": "int", "opts": {"max": 10}, "req": False, "validator": None}),
        dict(base, kind="list", key="tags", item={"kind": "int", "opts": {"max": 10}, "req": False, "validator": None})]})
    # a plain nested section (two levels, nothing required): options of the generated command line that address one of its
    # fields while its siblings hold non-default values
    sub = {"kind": "schema", "key": "zzsec", "req": False, "children": [
        dict(base, kind="port", key="port"), dict(base, kind="host", key="host", opts={"allow_ipv4": True}), dict(base, kind="bool", key="on"),
        {"kind": "schema", "key": "tls", "req": False, "children": [dict(base, kind="int", key="ver", opts={"min": 1, "max": 3}), dict(base, kind="str", key="cert")]},
    ]}
    extra.append(sub)
    keep = [c for c in spec["children"] if not c["key"].startswith("zz")]
    out = dict(spec, children=keep + extra)
    if which % 3 == 0:
        out = _no_required(out)  # every third schema has no required field at all (a tree load then ends in a passing validate())
    return out


def _no_required(node):
    kids = []
    for c in node["children"]:
        if "children" in c:
            c = _no_required(c)
        if c.get("req"):
            c = dict(c, req=False)
        kids.append(c)
    return dict(node, children=kids)


def strategy(tier):
    n = 25 if tier == "quick" else 70
    def hist(spec):
        base = ops.single_op(spec)
        leaves = ops.spec_leaves(spec)
        twins = [(i, nd) for i, (p, nd) in enumerate(leaves) if nd.get("twin_of") and len(p) == 1]
        if not twins:
            return st.fixed_dictionaries({"spec": st.just(spec), "ops": ops.op_strategy(spec, n)})

        def transfer_for(t):
            ti, tnode = t
            si = next(i for i, (p, nd) in enumerate(leaves) if p == (tnode["twin_of"],))
            # fill the loose twin, then offer what it holds to the strict field (whole assignment or in-place merge)
            return st.fixed_dictionaries({"op": st.just("copy_from"), "leaf": st.just(si), "src": st.just(ti), "fill": ops.value_for(tnode),
                                          "how": st.sampled_from(["assign", "assign", "extend", "iadd", "update"])})
        transfer = st.sampled_from(twins).flatmap(transfer_for)
        # text whose case change alters its length, at and around the length limit of the case-transforming field
        ci = next(i for i, (p, nd) in enumerate(leaves) if p == ("zzcase",))
        grow = st.tuples(st.sampled_from(["\u00df", "\ufb01", "\u0130", "\u0149", "a\u00df", "\u00dfx"]), st.integers(1, 4)).map(lambda t: (t[0] * t[1])[:5])
        expand = st.fixed_dictionaries({"op": st.sampled_from(["setattr", "setitem"]), "leaf": st.just(ci), "value": grow})
        fi = next(i for i, (p, nd) in enumerate(leaves) if p == ("zzfrac",))
        frac = st.fixed_dictionaries({"op": st.sampled_from(["setattr", "setitem"]), "leaf": st.just(fi), "value": st.sampled_from([0, "0", 1, 2, -1, 0.0, 1.0, 10, 9])})
        from ..codec import Opaque
        bi = next(i for i, (p, nd) in enumerate(leaves) if p == ("zzblob",))
        bli = next(i for i, (p, nd) in enumerate(leaves) if p == ("zzblobs",))
        odd = st.sampled_from([Opaque("bytearray:6162"), Opaque("memoryview:6162"), Opaque("bytearray:"), b"ab", "ab"])
        blob = st.one_of(st.fixed_dictionaries({"op": st.sampled_from(["setattr", "setitem"]), "leaf": st.just(bi), "value": odd}),
                         st.fixed_dictionaries({"op": st.sampled_from(["setattr", "setitem"]), "leaf": st.just(bli), "value": st.lists(odd, min_size=1, max_size=2)}))
        sec = {p: i for i, (p, nd) in enumerate(leaves) if p[0] == "zzsec"}
        fill = st.sampled_from([(("zzsec", "host"), "www.example.org"), (("zzsec", "tls", "cert"), "cert.pem"), (("zzsec", "tls", "ver"), 3), (("zzsec", "port"), 8443), (("zzsec", "on"), True)]).map(
            lambda t: {"op": "setitem", "leaf": sec[t[0]], "value": t[1]})
        over = st.lists(st.sampled_from([(("zzsec", "port"), "443"), (("zzsec", "tls", "ver"), "2"), (("zzsec", "host"), "h.example"), (("zzsec", "on"), True), (("zzsec", "tls", "cert"), "c2")]), min_size=1, max_size=2).map(
            lambda l: {"op": "cmdline", "args": [(sec[p], v) for p, v in l], "ignore": None})
        return st.fixed_dictionaries({"spec": st.just(spec), "ops": st.lists(ops.weighted((12, base), (4, transfer), (2, expand), (2, fill), (2, over), (1, frac), (1, blob), (1, st.fixed_dictionaries({"op": st.just("row_transfer"), "field": st.sampled_from(["limits", "tags"]), "src": st.integers(0, 2), "dst": st.integers(0, 2)}))), min_size=2, max_size=n)})
    return st.tuples(worlds.schema_spec(tier), st.integers(0, len(STRICT_ITEMS) - 1)).map(lambda t: _twin(t[0], t[1])).flatmap(hist)


def _without(snap, path):
    """Copy of a snapshot with the entry at ``path`` removed."""
    if not path:
        return snap
    out = dict(snap)
    key = path[0]
    if key not in out:
        return out
    if len(path) == 1:
        del out[key]
        return out
    entry = dict(out[key])
    v = entry["v"]
    if isinstance(v, tuple) and v[0] == "cfg":
        entry["v"] = ("cfg", _without(v[1], path[1:]))
        entry.pop("defined", None)
    out[key] = entry
    return out


def _walk_tree(node, tree, path=()):
    """(path, leaf node, basic value) for every leaf value given in a basic tree."""
    if not isinstance(tree, dict):
        return
    by_key = {c["key"]: c for c in node["children"]}
    for key, val in tree.items():
        child = by_key.get(key)
        if child is None:
            continue
        if child["kind"] in ("schema", "configtype"):
            yield from _walk_tree(child, val, path + (key,))
        elif child["kind"] in ("schemalist", "virtual", "method"):
            continue
        else:
            yield path + (key,), child, val


def _has(spec, pred):
    for child in spec["children"]:
        if pred(child):
            return True
        if child["kind"] in ("schema", "configtype", "schemalist") and _has(child, pred):
            return True
    return False


# -- exhaustive: a typed container the configuration holds as its DEFAULT is edited in place ----------------------------
HELD_CONTAINERS = ("int-list", "port-list", "str-dict", "int-dict")
HELD_DEFAULTS = ("const", "const-empty", "function", "partial", "object", "method", "none-then-assign", "none-then-load")
HELD_STATES = ("fresh", "after-reset", "second-config")
HELD_PLACES = ("root", "nested", "list-item")


def exhaustive(tier):
    """Every typed container kind x way its held value came to be (literal default, the four callable forms, assignment,
    load) x state of the configuration x placement x in-place mutator x offered item (bad / normalisable / good)."""
    for cont in HELD_CONTAINERS:
        for dflt in HELD_DEFAULTS:
            for state in HELD_STATES:
                for place in HELD_PLACES:
                    yield {"mode": "held-default-inplace", "cont": cont, "dflt": dflt, "state": state, "place": place}
    # the boundary grid of C05 (case-option spellings x choices / patterns, number bounds of a foreign type, ports, host
    # transforms) offered through every ROUTE: whatever the configuration holds afterwards meets the field's constraints
    from . import c05
    for c in c05.exhaustive(tier):
        if c["spec"]["kind"] in ("str", "loglevel", "int", "float", "port", "host", "url") or (c["spec"]["kind"] == "bool" and not str(c["value"]).isascii()):
            yield {"mode": "strict-grid", "spec": c["spec"], "value": c["value"]}


def _held_case(case, R):
    import functools
    cc = sandbox._state["cc"]
    cont, dflt, state, place = case["cont"], case["dflt"], case["state"], case["place"]
    is_list = cont.endswith("list")
    start = ([] if dflt == "const-empty" else [5, 6]) if is_list else ({} if dflt == "const-empty" else {"k": "a"} if cont == "str-dict" else {"k": 5})

    def produce():
        return type(start)(start)

    class Factory:
        def __call__(self):
            return produce()

        def make(self):
            return produce()
    kw = {}
    if dflt in ("const", "const-empty"):
        kw["default"] = produce()
    elif dflt == "function":
        kw["default"] = produce
    elif dflt == "partial":
        kw["default"] = functools.partial(lambda f: f(), produce)
    elif dflt == "object":
        kw["default"] = Factory()
    elif dflt == "method":
        kw["default"] = Factory().make
    if cont == "int-list":
        field = cc.ListField(cc.IntField(min=1, max=100), **kw)
        bad, norm, good = ["x", 0, 1000, "1e3"], [("42", 42)], [7]
    elif cont == "port-list":
        field = cc.ListField(cc.PortField(), **kw)
        bad, norm, good = ["http", 0, 70000, -1], [("8080", 8080)], [443]
    elif cont == "str-dict":
        field = cc.DictField(cc.StringField(), cc.StringField(choices=["a", "b"], transform_case="lower"), **kw)
        bad, norm, good = ["z", "", 5], [("A", "a"), ("B", "b")], ["b"]
    else:
        field = cc.DictField(cc.StringField(), cc.IntField(min=1, max=100), **kw)
        bad, norm, good = ["x", 0, 1000], [("42", 42)], [7]
    schema = cc.Schema()
    schema.other = cc.IntField(default=7)
    if place == "root":
        schema.f = field
        owner = lambda cfg: cfg
    elif place == "nested":
        schema.a.b.f = field
        owner = lambda cfg: cfg.a.b
    else:
        item = cc.Schema()
        item.f = field
        item.tag = cc.StringField()
        schema.rows = cc.ListField(item)
        owner = lambda cfg: cfg.rows[0]
    R.label("held-default-inplace", "held:" + dflt, "held:" + state)
    R.nontrivial = True

    def build():
        cfg = schema()
        if place == "list-item":
            cfg.rows = [{"tag": "t"}]
        if dflt == "none-then-assign":
            owner(cfg).f = produce()
        elif dflt == "none-then-load":
            tree = {"f": produce()}
            cfg.load_tree(tree if place == "root" else {"a": {"b": tree}} if place == "nested" else {"rows": [dict(tree, tag="t")]})
        return cfg
    cfg = build()
    if state == "after-reset":
        if dflt.startswith("none-then"):
            return
        try:
            owner(cfg).f = produce()
        except Exception:
            pass
        cc.reset_value(owner(cfg), "f")
    elif state == "second-config":
        cfg = build()
    held = owner(cfg).f
    if not R.check(held is not None and (list(held) == start if is_list else dict(held) == start), "sweep", "held:start:" + cont,
                   lambda: "the held %s value is %r, declared %r" % (cont, held, start)):
        return
    sig = "held:%s:%s" % (cont, dflt if dflt.startswith("none") or dflt.startswith("const") else "callable")

    def settled(what):
        cur = owner(cfg).f
        vals = list(cur) if is_list else list(cur.values())
        lo_ok = all((isinstance(v, int) and not isinstance(v, bool) and (1 <= v <= 100 if cont.startswith("int") else 1 <= v <= 65535)) if cont != "str-dict" else v in ("a", "b") for v in vals)
        R.check(lo_ok, "sweep", sig + ":" + state,
                lambda: "after %s on the held %s (%s default, %s, %s): it holds %r" % (what, cont, dflt, state, place, cur))
    if is_list:
        muts = [("append", lambda l, v: l.append(v)), ("insert", lambda l, v: l.insert(0, v)), ("extend", lambda l, v: l.extend([v])),
                ("iadd", lambda l, v: l.__iadd__([v])), ("extend-iter", lambda l, v: l.extend(iter([v]))),
                ("setslice", lambda l, v: l.__setitem__(slice(len(l), None), [v])), ("setitem", lambda l, v: l.__setitem__(0, v) if len(l) else l.append(v))]
    else:
        muts = [("setitem", lambda d, v: d.__setitem__("n", v)), ("update", lambda d, v: d.update({"n": v})), ("update-kw", lambda d, v: d.update(n=v)),
                ("update-pairs", lambda d, v: d.update([("n", v)])), ("setdefault", lambda d, v: d.setdefault("fresh%d" % len(d), v)),
                ("ior", lambda d, v: d.__ior__({"n": v}))]
    for mname, mut in muts:
        for v in bad:
            try:
                mut(owner(cfg).f, v)
            except Exception:
                pass
            settled("%s(%r)" % (mname, v))
        for raw, want in norm:
            try:
                mut(owner(cfg).f, raw)
            except Exception as exc:
                R.fail("accept-raises", sig, "%s(%r) on the held %s raised %r" % (mname, raw, cont, exc))
                continue
            settled("%s(%r)" % (mname, raw))
            cur = owner(cfg).f
            vals = list(cur) if is_list else list(cur.values())
            R.check(want in vals and all(type(x) is type(want) for x in vals), "read-back", sig + ":normal",
                    lambda: "%s(%r) on the held %s: it reads %r, normal form of the item is %r" % (mname, raw, cont, cur, want))
        for v in good:
            try:
                mut(owner(cfg).f, v)
            except Exception as exc:
                R.fail("accept-raises", sig, "%s(%r) on the held %s raised %r" % (mname, v, cont, exc))
        if len(owner(cfg).f) > 30:
            owner(cfg).f.clear()
    R.check(cfg.other == 7, "collateral", "held", "another field changed")


def _strict_grid_case(case, R):
    cc = sandbox._state["cc"]
    spec = dict(case["spec"], key="f", default={"mode": "none"})
    value = specs.realize(case["value"])
    ctx = specs.ref_ctx()
    R.label("strict-grid", "strict-grid:" + spec["kind"])
    item = cc.Schema()
    item.f = specs.build_field(cc, spec)
    item.tag = cc.StringField(default="t")
    schema = cc.Schema()
    schema.f = specs.build_field(cc, spec)
    schema.sub.f = specs.build_field(cc, spec)
    schema.rows = cc.ListField(item)
    schema.many = cc.ListField(specs.build_field(cc, spec))
    schema.table = cc.DictField(cc.StringField(), specs.build_field(cc, spec))
    verdict = refmodel.ref(spec, value, ctx)
    if verdict[0] == REJ:
        R.nontrivial = True
    routes = {
        "setattr": lambda cfg: setattr(cfg, "f", value), "setitem": lambda cfg: cfg.__setitem__("sub.f", value),
        "load_tree": lambda cfg: cfg.load_tree({"f": value, "sub": {"f": value}}), "rows": lambda cfg: setattr(cfg, "rows", [{"f": value}]),
        "row-append": lambda cfg: cfg.rows.append({"f": value}), "row-item": lambda cfg: (setattr(cfg, "rows", [{}]), setattr(cfg.rows[0], "f", value)),
        "many": lambda cfg: setattr(cfg, "many", [value]), "many-append": lambda cfg: (setattr(cfg, "many", []), cfg.many.append(value)),
        "table": lambda cfg: setattr(cfg, "table", {"k": value}), "table-set": lambda cfg: (setattr(cfg, "table", {}), cfg.table.__setitem__("k", value)),
        "ctor": None, "loads-json": lambda cfg: cfg.loads(json.dumps({"f": value, "sub": {"f": value}}).encode(), "json"),
    }
    for route, act in routes.items():
        try:
            if route == "ctor":
                cfg = schema(f=value)
            else:
                cfg = schema()
                if route == "loads-json" and not isinstance(value, (str, int, float, bool, type(None))):
                    continue
                act(cfg)
        except Exception:
            if route == "ctor":
                continue
        held = [cfg.f, cfg.sub.f] + [r.f for r in (cfg.rows or [])] + list(cfg.many or []) + list((cfg.table or {}).values())
        for h in held:
            if h is None:
                continue
            v = refmodel.ref(spec, h, ctx)
            if v[0] == U:
                R.unknown += 1
                continue
            R.check(v[0] == A and value_eq(h, v[1]), "sweep", "strict-grid:%s:%s" % (spec["kind"], route),
                    lambda: "%s%r offered %r via %s: the configuration then holds %r, which %s" % (
                        spec["kind"], spec.get("opts"), value, route, h, "its field rejects: %s" % (v[1],) if v[0] == REJ else "is not in normal form (%r)" % (v[1],)))


def run_case(case, R):
    if case.get("mode") == "held-default-inplace":
        return _held_case(case, R)
    if case.get("mode") == "strict-grid":
        return _strict_grid_case(case, R)
    cc = sandbox._state["cc"]
    spec = case["spec"]
    with sandbox.CaseDir() as d:
        world = worlds.World(cc, spec)
        state = {"cfg": world.schema(key_filename=os.path.join(d, "key")), "keyfile": os.path.join(d, "key")}
        if _has(spec, lambda c: c["kind"] == "schemalist"):
            R.label("has:schemalist")
        if _has(spec, lambda c: c["kind"] == "configtype"):
            R.label("has:configtype")
        has_container = _has(spec, lambda c: c["kind"] in ("schema", "configtype", "schemalist") or (c["kind"] == "list" and c.get("item")) or (c["kind"] == "dict" and (c.get("keyf") or c.get("valuef"))))
        worlds.sweep(world, state["cfg"], R, "construction")
        accepted_nonattr = rejected = False

        for op in case["ops"]:
            name = op["op"]
            cfg = state["cfg"]
            if name == "row_transfer":
                # the typed dict / list one item holds is assigned to the same field of another item of the same list; an
                # accepted in-place edit of the receiver afterwards "changes no other field" - the giver's included
                try:
                    cfg.zzrows = [{"name": "r0", "limits": {"cpu": 1, "mem": 2}, "tags": [1, 2]}, {"name": "r1"}, {"name": "r2", "limits": {"x": 3}, "tags": [3]}]
                    src, dst = cfg.zzrows[op["src"]], cfg.zzrows[op["dst"]]
                    if src is dst:
                        continue
                    setattr(dst, op["field"], getattr(src, op["field"]))
                    giver = cc.asdict(src)
                    mine = getattr(dst, op["field"])
                    if isinstance(mine, dict):
                        mine["added"] = 7
                    elif isinstance(mine, list):
                        mine.append(7)
                    else:
                        continue
                except Exception:
                    continue
                R.label("op:row_transfer")
                R.check(cc.asdict(src) == giver, "collateral", "row_transfer:" + op["field"],
                        lambda: "zzrows[%d].%s was assigned from zzrows[%d]; an in-place edit of it changed the giver: %r -> %r" % (op["dst"], op["field"], op["src"], giver, cc.asdict(src)))
                worlds.sweep(world, cfg, R, "row_transfer")
                continue
            before = worlds.snapshot(cfg, cc)
            out = ops.apply_op(world, state, op)
            if out.kind == "skipped":
                continue
            R.label("op:" + name, "outcome:" + out.kind)
            cfg = state["cfg"]
            info = out.info
            if out.kind == "raised":
                rejected = True
            elif name != "setattr":
                accepted_nonattr = True

            if out.kind == "ok":
                if name in ("setattr", "setitem") and info["node"]["kind"] != "schemalist":
                    node = info["node"]
                    verdict = refmodel.ref(node, info["value"], world.ctx)
                    got = worlds.get_path(cfg, out.target)
                    if verdict[0] == U:
                        R.unknown += 1
                    elif verdict[0] == A:
                        R.check(ops.read_matches(node, got, verdict), "read-back", "%s:%s" % (name, node["kind"]),
                                lambda: "%s = %r accepted, reads back %r, normal form is %r" % (".".join(out.target), info["value"], got, verdict[1]))
                    # (a value the reference rejects but the route accepted is only a C01 matter if what is then
                    #  *held* is invalid - the sweep below decides that; exactness of validation is C05's)
                    after = worlds.snapshot(cfg, cc)
                    R.check(_without(before, out.target) == _without(after, out.target), "collateral", name,
                            lambda: "assigning %s changed something else: %s" % (".".join(out.target), worlds.diff(_without(before, out.target), _without(after, out.target))))
                elif name == "reset":
                    after = worlds.snapshot(cfg, cc)
                    R.check(_without(before, out.target) == _without(after, out.target), "collateral", name,
                            lambda: "resetting %s changed something else: %s" % (".".join(out.target), worlds.diff(_without(before, out.target), _without(after, out.target))))
                elif name == "ctor":
                    for key, value in info["kw"].items():
                        node = info["by_key"][key]
                        if node["kind"] == "schemalist":
                            continue
                        verdict = refmodel.ref(node, value, world.ctx)
                        if verdict[0] == A:
                            got = getattr(cfg, key)
                            R.check(ops.read_matches(node, got, verdict), "read-back", "ctor:" + node["kind"],
                                    lambda: "ctor %s=%r reads back %r, normal form %r" % (key, value, got, verdict[1]))
                elif name in ("load_tree", "loads") or (name == "assign_sub" and info.get("how") == "dict"):
                    base = () if name != "assign_sub" else out.target
                    root_node = spec if name != "assign_sub" else info["node"]
                    tree = info["tree"] if name != "assign_sub" else info["value"]
                    for path, node, basic in _walk_tree(root_node, tree):
                        verdict = ops.expected_after_load(node, basic, world.ctx)
                        if verdict[0] == A:
                            try:
                                got = worlds.get_path(cfg, base + path)
                            except Exception as exc:
                                R.fail("read-back", name + ":read", "reading %s raised %r" % (".".join(base + path), exc))
                                continue
                            R.check(ops.read_matches(node, got, verdict), "read-back", "%s:%s" % (name, node["kind"]),
                                    lambda: "%s loaded %s=%r, reads back %r, normal form %r" % (name, ".".join(base + path), basic, got, verdict[1]))
                elif name == "cmdline":
                    final = {}
                    for path, (node, text) in info["supplied"].items():
                        if info["ignore"] == ".".join(path):
                            continue
                        final[path] = (node, text)
                    for path, (node, text) in final.items():
                        verdict = refmodel.ref(node, text, world.ctx)
                        if verdict[0] == A:
                            got = worlds.get_path(cfg, path)
                            R.check(ops.read_matches(node, got, verdict), "read-back", "cmdline:" + node["kind"],
                                    lambda: "command line %r: %s reads back %r, normal form %r" % (info["argv"], ".".join(path), got, verdict[1]))
                    # ... and nothing but the supplied fields changes (siblings of a nested option included)
                    b2, a2 = before, worlds.snapshot(cfg, cc)
                    for path in final:
                        b2, a2 = _without(b2, path), _without(a2, path)
                    R.check(b2 == a2, "collateral", "cmdline", lambda: "command line %r changed fields it does not name: %s" % (info["argv"], worlds.diff(b2, a2)))
            worlds.sweep(world, cfg, R, name + ("" if out.kind == "ok" else ":rejected"))

        if accepted_nonattr and rejected and has_container:
            R.nontrivial = True
