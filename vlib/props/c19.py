"""C19 — a failed save never damages the file on disk; a successful one loads back."""
import os

from hypothesis import strategies as st

from .. import ops, refmodel, sandbox, specs, trees, worlds
from . import c02

ID = "C19"
LEVEL = "fault_enumeration"
DESIGN_REF = "DESIGN.md §4 C19"
RULE = (
    "Fault enumeration over generated configurations. A case = (schema spec, populated valid state, a later "
    "modification, format, exception class to inject). The destination first receives a successful save (the "
    "'previous configuration'), then the configuration is modified. A counting pass records the N steps one "
    "serialisation goes through - every Field.to_basic call (each field's encoding, nested fields and list items "
    "included), every KeyFile context entry, every provider encrypt call and the formatter's dumps - via "
    "harness-side wrappers (no repository change); then N runs (all of them; at most 60 per case in the quick tier) "
    "inject an exception (Exception subclass, OSError, MemoryError or a BaseException subclass) at the k-th step. "
    "Natural faults are generated too: an un-encodable AnyField / dynamic value, a value outside the format's domain "
    "(2**70 in BSON, a control character in XML), a malformed key file, an unknown format name. Oracle for every "
    "failing save: it raises, the destination's bytes, inode and mtime are identical and sys.audit saw no open of "
    "the destination for writing; for the successful save: the file content equals the bytes the formatter "
    "returned inside that call and load(dest) gives a configuration equal (C02 equality) to the saved one; the same "
    "for a second configuration of the same schema with the same values under another key file, saved in between. "
    "Non-trivial = an injection point inside a nested field or the cipher; distinct = SHA-1 of the descriptor."
)
ASSUMPTIONS = [
    "failures of serialisation as the statement lists them; a process killed during file.write is outside the "
    "statement and outside what in-process injection can show",
    "only default format options are used for the load-back clause (Config.load cannot pass options)",
    "values of non-basic Python types (Decimal, timedelta, paths, ...) in untyped slots are in the load-back domain only "
    "for the two formats that carry Python objects (pickle; YAML through PyYAML's Python tags, which the format uses on "
    "purpose), and only when the save itself succeeded; strings are in the domain of a format as C04 defines it",
]
REQUIRED = ["size-sweep:bson", "inject:to_basic", "inject:keyfile", "inject:encrypt", "inject:dumps", "natural:unencodable", "natural:unknown-format",
            "natural:bad-keyfile", "natural:out-of-domain", "success-save", "sibling-save", "python-values:yaml", "text-sweep:yaml", "secret-sweep:xor", "dest:home-relative", "save-again:removed", "save-again:replaced"]
LEVEL_TEXT = (
    "Every step of serialisation of each generated configuration is enumerated and failed once (exhaustive over the "
    "injection points of that configuration), plus naturally failing values; the destination file is compared byte "
    "for byte and file opens are audited. Kills mutants that open the destination before serialising or write in "
    "two chunks around the formatter call."
)
LEVEL_NOTE = "Trusted: CPython, Hypothesis, sys.audit 'open' events, monkey-patched wrappers that only count and raise."
TECHNIQUE = "fault enumeration driven by property-based generation (Hypothesis): inject a failure at each serialisation step, compare the file"


class Injected(Exception):
    pass


class InjectedBase(BaseException):
    pass


EXC = {"exception": Injected, "oserror": OSError, "memory": MemoryError, "base": InjectedBase}


def selftest():
    refmodel.selftest()


def budget(tier):
    if tier == "quick":
        return {"cases": 120, "shards": 3}
    return {"cases": 450, "shards": 16}


def exhaustive(tier):
    """File round trips over a sweep of document sizes (length-prefixed formats make the first bytes vary)."""
    top = 300 if tier == "quick" else 700
    for fmt in trees.FORMATS:
        step = 1 if fmt == "bson" or tier != "quick" else 7
        for n in range(0, top, step):
            yield {"mode": "size-sweep", "fmt": fmt, "n": n}
    # secrets of every length around the key (32 bytes) and block (16 bytes) sizes, per method and format, alone, in a
    # list item and in a typed dict value: the file of a successful save loads back into an equal configuration
    for fmt in trees.FORMATS:
        for method in ("best", "aes", "xor"):
            for n in (1, 15, 16, 17, 31, 32, 33, 47, 48, 49, 63, 64, 65, 100, 257, 1000):
                yield {"mode": "secret-sweep", "fmt": fmt, "method": method, "n": n}
    for fmt in trees.FORMATS:
        for i in range(len(TEXT_CHARS)):
            yield {"mode": "text-sweep", "fmt": fmt, "char": i}
    for fmt in ("yaml", "pickle"):
        for name in PY_VALUES:
            for slot in ("any", "nested-any", "list-item", "dict-value", "dynamic"):
                yield {"mode": "python-values", "fmt": fmt, "value": name, "slot": slot}


def strategy(tier):
    def hist(spec):
        leaves = ops.spec_leaves(spec)
        populate = st.fixed_dictionaries({".".join(p): c02.candidates(nd) for p, nd in leaves}) if leaves else st.just({})
        return st.fixed_dictionaries({
            "spec": st.just(spec), "populate": populate, "skip": st.lists(st.integers(0, 40), max_size=3),
            "modify": st.lists(ops.single_op(spec), max_size=4), "fmt": st.sampled_from(trees.FORMATS),
            "exc": st.sampled_from(sorted(EXC)),
            "dest_style": st.sampled_from(["absolute", "absolute", "home"]),
        })
    def with_any(spec):
        extra = {"kind": "any", "key": "zzany", "req": False, "validator": None, "opts": {}, "default": {"mode": "none"}}
        return dict(spec, children=[c for c in spec["children"] if c["key"] != "zzany"] + [extra])
    # (C02's fixed extras as well: secrets / bytes / digests inside list items, a config type and a nested schema give the
    # serialisation its deep steps - nested to_basic calls, several key contexts and cipher calls per save)
    def variant(t):
        spec, k = t
        if k == 0:
            return with_any(spec)                      # the generated schema as it is
        if k == 1:
            # exactly one secret in the whole configuration: one key context, one cipher call per save
            leaf = {"req": False, "validator": None, "default": {"mode": "none"}}
            return with_any({"kind": "schema", "key": "", "children": [dict(leaf, kind="secure", key="only", opts={"method": "best"}),
                                                                        dict(leaf, kind="str", key="label", opts={})]})
        return with_any(c02._augment(spec))
    return st.tuples(worlds.schema_spec(tier), st.sampled_from([0, 1, 2, 2])).map(variant).flatmap(hist)


class Injector:
    """Counts (and optionally fails) every step of serialisation. Harness-side only."""

    def __init__(self, cc, target=None, exc=Injected):
        self.cc = cc
        self.target = target
        self.exc = exc
        self.count = 0
        self.labels = []
        self.dumps_result = None
        self._saved = []

    def _wrap(self, owner, name, label):
        orig = owner.__dict__[name]
        inj = self

        def wrapper(*args, **kwargs):
            inj.count += 1
            inj.labels.append(label)
            if inj.count == inj.target:
                raise inj.exc("injected fault at step %d (%s)" % (inj.count, label))
            result = orig(*args, **kwargs)
            if label.startswith("dumps"):
                inj.dumps_result = result
            return result
        self._saved.append((owner, name, orig))
        setattr(owner, name, wrapper)

    def __enter__(self):
        cc = self.cc
        from cincoconfig import encryption, formats
        seen = set()
        classes = [cc.core.Field]
        stack = [cc.core.Field]
        while stack:
            cls = stack.pop()
            for sub in cls.__subclasses__():
                if sub not in seen:
                    seen.add(sub)
                    classes.append(sub)
                    stack.append(sub)
        for cls in classes:
            if "to_basic" in cls.__dict__:
                self._wrap(cls, "to_basic", "to_basic:" + cls.__name__)
        self._wrap(encryption.KeyFile, "__enter__", "keyfile")
        self._wrap(encryption.AesProvider, "encrypt", "encrypt:aes")
        self._wrap(encryption.XorProvider, "encrypt", "encrypt:xor")
        for name, fcls in formats.FORMATS:
            if "dumps" in fcls.__dict__:
                self._wrap(fcls, "dumps", "dumps:" + name)
        return self

    def __exit__(self, *exc):
        for owner, name, orig in reversed(self._saved):
            setattr(owner, name, orig)
        return False


def _stat(path):
    try:
        st_ = os.stat(path)
        with open(path, "rb") as fp:
            return (fp.read(), st_.st_ino, st_.st_mtime_ns, st_.st_size)
    except OSError:
        return (b"<the destination file no longer exists>", None, None, None)


def _size_sweep(case, R):
    cc = sandbox._state["cc"]
    fmt, n = case["fmt"], case["n"]
    R.label("size-sweep:" + fmt)
    with sandbox.CaseDir() as d:
        schema = cc.Schema()
        schema.text = cc.StringField()
        schema.n = cc.IntField()
        cfg = schema(key_filename=os.path.join(d, "key"))
        cfg.text = "x" * n
        cfg.n = n
        dest = os.path.join(d, "sweep." + fmt)
        try:
            cfg.save(dest, fmt)
            fresh = schema(key_filename=os.path.join(d, "key"))
            fresh.load(dest, fmt)
            ok = fresh.text == cfg.text and fresh.n == n
            err = None
        except Exception as exc:
            ok, err = False, exc
        R.check(ok, "loads-back", "size-sweep:" + fmt, lambda: "a %s file holding a %d-character string does not load back through Config.load (%r)" % (fmt, n, err))
        R.nontrivial = n % 16 == 11  # a thin, measured slice counts as non-trivial (sizes around length-byte boundaries)


TEXT_CHARS = ["\x85", "\u2028", "\u2029", "\r", "\r\n", "\n", "\t", "\x0b", "\x0c", "\x1c", "\x1e", "\x7f", "\xa0", "\ufeff", "\u200b", "\x00", "\x1b", "\ud7ff", "\ue000", "\ufffd",
              "\U0001f511", "'", '"', "\\", ": ", " #", "- ", "|", ">", "%", "@", "`", "!", "&", "*", "?", "{", "[", "<", "]]>", "&amp;", "~", "null", "yes", "1e3", "0x1f", "1_000", "=", "<<"]


def _text_sweep_case(case, R):
    """Strings holding one awkward character / token (line separators of every kind, YAML and XML syntax characters, words that
    read as other types), at the start, in the middle, at the end and alone, in typed and untyped slots: the saved file loads back equal."""
    cc = sandbox._state["cc"]
    fmt, ch = case["fmt"], TEXT_CHARS[case["char"]]
    R.label("text-sweep:" + fmt)
    texts = [ch, "a" + ch + "b", ch + "b", "a" + ch, "a " + ch + " b", "line one" + ch + "line two" + ch]
    texts = [t for t in texts if ops.is_plain(t, fmt)]
    if not texts:
        R.label("text-sweep:outside-format-domain")
        return
    R.nontrivial = not ch.isascii() or ch in ("\r", "\r\n", "\x0b", "\x0c", "\x1c", "\x1e")
    schema = cc.Schema()
    schema.typed = cc.ListField(cc.StringField())
    schema.loose = cc.ListField()
    schema.one = cc.StringField()
    schema.sub.table = cc.DictField(cc.StringField(), cc.StringField())
    with sandbox.CaseDir() as d:
        cfg = schema(key_filename=os.path.join(d, "key"))
        cfg.typed, cfg.loose, cfg.one = list(texts), list(texts), texts[1 % len(texts)]
        cfg.sub.table = {"k%d" % i: t for i, t in enumerate(texts)}
        dest = os.path.join(d, "text." + fmt)
        try:
            cfg.save(dest, fmt)
        except Exception:
            R.label("text-sweep:save-refused")
            return
        try:
            fresh = schema(key_filename=os.path.join(d, "key"))
            fresh.load(dest, fmt)
            got = (list(fresh.typed), list(fresh.loose), fresh.one, dict(fresh.sub.table))
            err = None
        except Exception as exc:
            got, err = None, exc
        want = (list(texts), list(texts), texts[1 % len(texts)], {"k%d" % i: t for i, t in enumerate(texts)})
        R.check(got == want, "loads-back", "text-sweep:%s:%r" % (fmt, ch),
                lambda: "strings holding %r saved as %s load back as %r (%r)" % (ch, fmt, got, err))


PY_VALUES = ["decimal", "timedelta", "date", "datetime", "ordereddict", "purepath", "complex", "tuple", "set", "frozenset", "bytes", "fraction", "range", "nested"]


def _py_value(name):
    import collections, datetime, decimal, fractions, pathlib
    return {"decimal": decimal.Decimal("2.50"), "timedelta": datetime.timedelta(minutes=5), "date": datetime.date(2024, 2, 29),
            "datetime": datetime.datetime(2024, 2, 29, 12, 30, 15), "ordereddict": collections.OrderedDict([("b", 1), ("a", 2)]),
            "purepath": pathlib.PurePosixPath("/etc/app.d"), "complex": 1 + 2j, "tuple": (1, "a"), "set": {1, 2}, "frozenset": frozenset([1, 2]),
            "bytes": b"\x00\xff", "fraction": fractions.Fraction(1, 3), "range": range(3),
            "nested": {"when": [datetime.timedelta(seconds=1), decimal.Decimal("0.1")], "pair": (1, (2, 3))}}[name]


def _python_values_case(case, R):
    """The formats that carry arbitrary Python objects (pickle, and YAML through its Python tags): whatever a save accepts in
    an untyped slot, the file it wrote loads back equal."""
    cc = sandbox._state["cc"]
    fmt, name, slot = case["fmt"], case["value"], case["slot"]
    R.label("python-values:" + fmt)
    value = _py_value(name)
    schema = cc.Schema(dynamic=True)
    schema.label = cc.StringField(default="svc")
    schema.free = cc.AnyField()
    schema.items = cc.ListField()
    schema.table = cc.DictField()
    schema.sub.free = cc.AnyField()
    with sandbox.CaseDir() as d:
        cfg = schema(key_filename=os.path.join(d, "key"))
        if slot == "any":
            cfg.free = value
        elif slot == "nested-any":
            cfg.sub.free = value
        elif slot == "list-item":
            cfg.items = [1, value]
        elif slot == "dict-value":
            cfg.table = {"k": value}
        else:
            cfg.extra = value
        read = {"any": lambda c: c.free, "nested-any": lambda c: c.sub.free, "list-item": lambda c: list(c.items), "dict-value": lambda c: dict(c.table),
                "dynamic": lambda c: c.extra}[slot]
        want = read(cfg)
        dest = os.path.join(d, "py." + fmt)
        try:
            cfg.save(dest, fmt)
        except Exception:
            R.label("python-values:save-refused")
            return
        R.nontrivial = True
        try:
            fresh = schema(key_filename=os.path.join(d, "key"))
            fresh.load(dest, fmt)
            got, err = read(fresh), None
        except Exception as exc:
            got, err = None, exc
        R.check(err is None and got == want and type(got) is type(want), "loads-back", "python-values:%s:%s" % (fmt, name),
                lambda: "a %s value in an untyped slot (%s) was saved as %s; the file loads back as %r (%s)" % (name, slot, fmt, got, "raised %r" % (err,) if err else "want %r" % (want,)))


def _secret_sweep(case, R):
    cc = sandbox._state["cc"]
    fmt, method, n = case["fmt"], case["method"], case["n"]
    R.label("secret-sweep:" + method)
    R.nontrivial = n > 32
    with sandbox.CaseDir() as d:
        item = cc.Schema()
        item.token = cc.SecureField(method=method)
        schema = cc.Schema()
        schema.secret = cc.SecureField(method=method)
        schema.sub.wide = cc.SecureField(method=method)
        schema.rows = cc.ListField(item)
        schema.vault = cc.DictField(cc.StringField(), cc.SecureField(method=method))
        schema.plain = cc.ListField(cc.SecureField(method=method))
        cfg = schema(key_filename=os.path.join(d, "key"))
        text = "".join(chr(97 + (i * 7 + n) % 26) for i in range(n))
        wide = ("\u00e9\u4e2d" * n)[:n]
        cfg.secret = text
        cfg.sub.wide = wide
        cfg.rows = [{"token": text[::-1]}, {"token": "short"}]
        cfg.vault = {"a": text, "b": wide}
        cfg.plain = [wide, text]
        want = (text, wide, [text[::-1], "short"], {"a": text, "b": wide}, [wide, text])
        dest = os.path.join(d, "secrets." + fmt)
        try:
            cfg.save(dest, fmt)
            fresh = schema(key_filename=os.path.join(d, "key"))
            fresh.load(dest, fmt)
            got = (fresh.secret, fresh.sub.wide, [r.token for r in fresh.rows], dict(fresh.vault), list(fresh.plain))
            err = None
        except Exception as exc:
            got, err = None, exc
        R.check(got == want, "loads-back", "secret-sweep:%s:%s" % (method, fmt),
                lambda: "secrets of %d characters (method %s) saved as %s load back as %r (%r)" % (n, method, fmt, got, err))


def run_case(case, R):
    if case.get("mode") == "size-sweep":
        return _size_sweep(case, R)
    if case.get("mode") == "secret-sweep":
        return _secret_sweep(case, R)
    if case.get("mode") == "text-sweep":
        return _text_sweep_case(case, R)
    if case.get("mode") == "python-values":
        return _python_values_case(case, R)
    cc = sandbox._state["cc"]
    spec = case["spec"]
    fmt = case["fmt"]
    with sandbox.CaseDir() as d:
        world = worlds.World(cc, spec)
        keyfile = os.path.join(d, "key")
        cfg = world.schema(key_filename=keyfile)
        c02.populate(world, cfg, case)
        if cfg.validate(collect_errors=True):
            R.label("discarded:invalid-state")
            return
        try:
            tree0 = cfg.to_tree()
        except Exception:
            return
        if not ops.is_plain(tree0, fmt):
            R.label("discarded:out-of-domain")
            return
        dest = os.path.join(d, "config." + fmt)
        dest_arg = dest
        if case.get("dest_style") == "home":
            # the destination is given relative to the home directory ("~/..."), which save() and load() expand
            home_dir = os.path.join(sandbox.home(), "c19-" + os.path.basename(d))
            os.makedirs(home_dir, exist_ok=True)
            dest = os.path.join(home_dir, "config." + fmt)
            dest_arg = "~/" + os.path.relpath(dest, sandbox.home())
            R.label("dest:home-relative")
        try:
            cfg.save(dest_arg, fmt)
        except Exception as exc:
            R.fail("first-save-raises", fmt, "saving a valid in-domain configuration raised %r" % (exc,))
            return
        # modify, so that a later save would write something else
        state = {"cfg": cfg, "keyfile": keyfile}
        for op in case["modify"]:
            if op["op"] != "ctor":
                ops.apply_op(world, state, op)
        c02._sanitize(world, cfg)
        before = _stat(dest)

        def expect_untouched(site, what, exc_info):
            nonlocal before
            after = _stat(dest)
            if after[1] is None and before[1] is not None:
                R.fail("untouched", site + ":deleted", "%s: the destination file was removed" % what)
                with open(dest, "wb") as fp:  # put the previous configuration back so that the rest of the case can go on
                    fp.write(before[0])
                before = _stat(dest)
                return
            R.check(after[0] == before[0], "untouched", site + ":bytes", lambda: "%s: destination content changed (%d -> %d bytes)" % (what, len(before[0]), len(after[0])))
            R.check(after[1:] == before[1:], "untouched", site + ":stat", lambda: "%s: destination inode/mtime/size changed" % what)
            R.check(os.path.abspath(dest) not in exc_info["writes"], "untouched", site + ":opened-for-writing", lambda: "%s: destination was opened for writing" % what)
            leftovers = [n for n in os.listdir(os.path.dirname(dest)) if n not in ("config." + fmt, "key", "key-blocker")]
            R.check(not leftovers, "untouched", site + ":leftovers", lambda: "%s: stray files left next to the destination: %r" % (what, leftovers))

        def failing_save(site, what, action, must_raise=True, retry=False):
            info = {"writes": set()}
            with sandbox.Recorder() as rec:
                try:
                    action()
                    raised = None
                except BaseException as exc:  # injected BaseException subclasses included
                    raised = exc
            info["writes"] = rec.paths(writing=True)
            if raised is None:
                if must_raise:
                    R.fail("must-raise", site, "%s: save returned normally" % what)
                return False
            expect_untouched(site, what, info)
            if retry:
                # a failed attempt must not leave state behind that lets the very same save 'succeed' next time
                with sandbox.Recorder() as rec2:
                    try:
                        action()
                        again = None
                    except BaseException as exc:
                        again = exc
                if again is None:
                    R.fail("must-raise", site + ":retry", "%s: the retry of the failed save returned normally" % what)
                else:
                    expect_untouched(site + ":retry", what + " (retry)", {"writes": rec2.paths(writing=True)})
            return True

        # ---- counting pass ------------------------------------------------------------------------------------
        with Injector(cc) as counter:
            try:
                cfg.dumps(fmt)
                serialisable = True
            except Exception:
                serialisable = False
        labels = list(counter.labels)
        n = len(labels)
        limit = 60 if os.environ.get("VERIF_TIER", "quick") == "quick" and not case.get("all_points") else n
        exc_cls = EXC[case["exc"]]
        depth_hit = False
        for k in range(1, min(n, limit) + 1):
            label = labels[k - 1]
            R.label("inject:" + label.split(":")[0].replace("to_basic", "to_basic"))
            with Injector(cc, target=k, exc=exc_cls):
                failing_save("inject:" + label.split(":")[0], "fault (%s) injected at step %d/%d (%s)" % (case["exc"], k, n, label),
                             lambda: cfg.save(dest_arg, fmt))
            if label.startswith(("encrypt", "keyfile")) or k > 3:
                depth_hit = True
        if depth_hit:
            R.nontrivial = True

        # ---- natural faults ---------------------------------------------------------------------------------------
        failing_save("natural:unknown-format", "unknown format name", lambda: cfg.save(dest_arg, "no-such-format"))
        R.label("natural:unknown-format")
        anys = [(p, nd) for p, nd in ops.spec_leaves(spec) if nd["kind"] == "any" and len(p) == 1]
        if anys and fmt not in ("pickle", "yaml"):  # pickle and PyYAML's full dumper can encode any Python object
            path, nd = anys[0]
            old = getattr(cfg, path[0])
            try:
                setattr(cfg, path[0], object())
                ok = True
            except Exception:
                ok = False
            if ok:
                R.label("natural:unencodable")
                failing_save("natural:unencodable", "un-encodable AnyField value", lambda: cfg.save(dest_arg, fmt))
                try:
                    setattr(cfg, path[0], old)
                except Exception:
                    cfg._data[path[0]] = old
        if fmt in ("bson", "xml") and anys:
            path, nd = anys[0]
            old = getattr(cfg, path[0])
            bad = 2 ** 70 if fmt == "bson" else "ctrl\x01char"
            try:
                setattr(cfg, path[0], bad)
                R.label("natural:out-of-domain")
                failing_save("natural:out-of-domain", "value outside the %s domain" % fmt, lambda: cfg.save(dest_arg, fmt))
                setattr(cfg, path[0], old)
            except Exception:
                pass
        if any(l.startswith("keyfile") for l in labels):
            # the key file can be neither read nor created (its directory is a regular file)
            blocker = os.path.join(d, "key-blocker")
            cfg._key_filename = os.path.join(blocker, "k.key")
            with open(blocker, "wb") as fp:
                fp.write(b"x")
            R.label("natural:key-uncreatable")
            failing_save("natural:key-uncreatable", "key file can be neither read nor created", lambda: cfg.save(dest_arg, fmt), retry=True)
            os.unlink(blocker)
            cfg._key_filename = keyfile
            with open(keyfile, "rb") as fp:
                good = fp.read()
            with open(keyfile, "wb") as fp:
                fp.write(b"short")
            R.label("natural:bad-keyfile")
            # a fresh configuration object: key objects of cfg may legitimately hold nothing between saves anyway
            failing_save("natural:bad-keyfile", "malformed key file", lambda: cfg.save(dest_arg, fmt), retry=True)
            with open(keyfile, "wb") as fp:
                fp.write(good)

        # ---- the successful save ------------------------------------------------------------------------------------
        if not serialisable or cfg.validate(collect_errors=True) or not ops.is_plain(cfg.to_tree(), fmt):
            return
        # another configuration of the same schema, holding the same values under ANOTHER key file, is saved in this
        # process as well: each file must load back with its own key file
        sib_key, sib_dest = os.path.join(d, "key-sibling"), os.path.join(d, "sibling." + fmt)
        sib = world.schema(key_filename=sib_key)
        c02.populate(world, sib, case)
        if not sib.validate(collect_errors=True) and ops.is_plain(sib.to_tree(), fmt) and not c02._required_unset(world, sib):
            try:
                sib.save(sib_dest, fmt)
            except Exception as exc:
                R.fail("save-raises", fmt + ":sibling", "saving a second configuration of the schema raised %r" % (exc,))
            else:
                R.label("sibling-save")
                back = world.schema(key_filename=sib_key)
                try:
                    back.load(sib_dest, fmt)
                except Exception as exc:
                    R.fail("loads-back", fmt + ":sibling-raises", "a second configuration of the same schema (own key file) was saved after the first: loading its file raised %r" % (exc,))
                else:
                    c02.compare(world, sib, back, R, "loads-back:sibling")
        with Injector(cc) as probe:
            try:
                cfg.save(dest_arg, fmt)
            except Exception as exc:
                R.fail("save-raises", fmt, "saving raised %r" % (exc,))
                return
        R.label("success-save")
        with open(dest, "rb") as fp:
            written = fp.read()
        R.check(written == probe.dumps_result, "exact", fmt, lambda: "file holds %d bytes, serialisation produced %d bytes" % (len(written), len(probe.dumps_result or b"")))
        if c02._required_unset(world, cfg):
            return  # known D14 territory (C02)
        fresh = world.schema(key_filename=keyfile)
        try:
            fresh.load(dest_arg, fmt)
        except Exception as exc:
            R.fail("loads-back", fmt + ":raises", "loading the file just saved raised %r" % (exc,))
            return
        c02.compare(world, cfg, fresh, R, "loads-back")

        # ---- the same configuration is saved again to the same path after the file was removed / replaced from outside ----
        for disturbance in ("removed", "replaced"):
            if disturbance == "removed":
                os.unlink(dest)
            else:
                with open(dest, "wb") as fp:
                    fp.write(b"somebody else's file")
            with Injector(cc) as probe2:
                try:
                    cfg.save(dest_arg, fmt)
                except Exception as exc:
                    R.fail("save-raises", fmt + ":again-" + disturbance, "saving again raised %r" % (exc,))
                    return
            R.label("save-again:" + disturbance)
            try:
                with open(dest, "rb") as fp:
                    written2 = fp.read()
            except OSError:
                written2 = None
            R.check(written2 is not None and written2 == probe2.dumps_result, "exact", fmt + ":again-" + disturbance,
                    lambda: "the file was %s from outside and the configuration saved again: the file holds %s" % (
                        disturbance, "nothing (it does not exist)" if written2 is None else "%d bytes, serialisation produced %d" % (len(written2), len(probe2.dumps_result or b""))))
