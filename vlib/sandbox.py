"""Private scratch world for one check process.

* a scratch root outside /repo and /verif, removed at exit;
* HOME points into it **before** cincoconfig is imported (the default key path is computed from
  ``~`` at import time);
* cincoconfig is imported from ``$VERIF_REPO`` (default /repo) and nowhere else;
* file opens are *observed* with an audit hook, never mocked.
"""
import atexit
import os
import shutil
import sys
import tempfile

HARNESS_ERROR = 2

_state = {"root": None, "owner": None, "record": None, "cc": None}


class HarnessError(Exception):
    """Something is wrong with the check itself (exit code 2, never a VIOLATION)."""


def _audit(event, args):
    rec = _state["record"]
    if rec is None or event != "open":
        return
    try:
        path, mode, flags = args
    except Exception:  # pragma: no cover
        return
    if isinstance(path, bytes):
        path = os.fsdecode(path)
    if isinstance(path, str):
        rec.append((path, mode if isinstance(mode, str) else "", flags))


def setup():
    """Create the sandbox and import cincoconfig from the tree under test. Idempotent."""
    if _state["cc"] is not None:
        return _state["cc"]

    repo = os.path.abspath(os.environ.get("VERIF_REPO", "/repo"))
    base = os.environ.get("TMPDIR") or tempfile.gettempdir()
    root = tempfile.mkdtemp(prefix="ccverif-", dir=base)
    real = os.path.realpath(root)
    for forbidden in ("/repo", "/verif"):
        if real == forbidden or real.startswith(forbidden + os.sep):
            raise HarnessError("scratch dir %s is inside %s" % (real, forbidden))
    _state["root"] = root
    _state["owner"] = os.getpid()
    atexit.register(cleanup)

    home = os.path.join(root, "home")
    os.makedirs(home)
    os.environ["HOME"] = home
    for key in list(os.environ):
        if key.startswith("CCV_"):
            del os.environ[key]

    if "cincoconfig" in sys.modules:
        raise HarnessError("cincoconfig imported before the sandbox was set up")
    sys.path.insert(0, repo)
    import cincoconfig  # noqa: E402

    cc_file = os.path.realpath(cincoconfig.__file__)
    if not cc_file.startswith(os.path.realpath(repo) + os.sep):
        raise HarnessError("cincoconfig imported from %s, not from %s" % (cc_file, repo))
    default_key = cincoconfig.Config.DEFAULT_CINCOKEY_FILEPATH
    if not os.path.realpath(default_key).startswith(os.path.realpath(home) + os.sep):
        raise HarnessError("default key path %s escapes the sandbox" % default_key)

    sys.addaudithook(_audit)
    _state["cc"] = cincoconfig
    # relative paths handed to the library (e.g. a relative startdir) must land inside the sandbox
    os.chdir(root)
    return cincoconfig


def cleanup():
    root = _state["root"]
    if root and _state["owner"] == os.getpid():
        shutil.rmtree(root, ignore_errors=True)
        _state["root"] = None


def root():
    return _state["root"]


def home():
    return os.path.join(_state["root"], "home")


def default_key_path():
    return _state["cc"].Config.DEFAULT_CINCOKEY_FILEPATH


_counter = [0]


class CaseDir:
    """A fresh directory for one case; removed on exit.  Also resets the default key file."""

    def __init__(self, keep_home=False):
        self.keep_home = keep_home
        self.path = None

    def __enter__(self):
        _counter[0] += 1
        self.path = os.path.join(_state["root"], "w%d" % os.getpid(), "c%d" % _counter[0])
        os.makedirs(self.path)
        if not self.keep_home:
            reset_home()
        return self.path

    def __exit__(self, *exc):
        shutil.rmtree(self.path, ignore_errors=True)
        return False


def reset_home():
    h = home()
    for name in os.listdir(h):
        p = os.path.join(h, name)
        if os.path.isdir(p) and not os.path.islink(p):
            shutil.rmtree(p, ignore_errors=True)
        else:
            try:
                os.unlink(p)
            except OSError:
                pass


class Recorder:
    """Record every file open (path, mode, flags) made inside the ``with`` block."""

    def __init__(self):
        self.events = []

    def __enter__(self):
        self._prev = _state["record"]
        _state["record"] = self.events
        return self

    def __exit__(self, *exc):
        _state["record"] = self._prev
        return False

    def paths(self, writing=None):
        out = set()
        for path, mode, flags in self.events:
            w = any(c in mode for c in "wax+") if mode else bool(flags & (os.O_WRONLY | os.O_RDWR))
            if writing is None or writing == w:
                out.add(os.path.abspath(path))
        return out
