"""Reference validators / normalisers per field kind, written from the field docstrings.

``ref(spec, value)`` -> ("A", normal_form) | ("R", reason) | ("U", why)   (accept / reject / abstain)

A *spec* is plain data: {"kind": K, "req": bool, "opts": {...}, "validator": name|None, ...}.
Nothing here calls the code under test.  Trusted base: CPython int()/float()/str methods, re,
ipaddress, os.path, base64/binascii, hashlib.
"""
import ipaddress
import math
import os
import re

from .codec import Opaque

A, REJ, U = "A", "R", "U"

# the two published hostname character classes (class attributes of HostnameField), matched in full
_HOST_RE = re.compile(r"[a-zA-Z0-9][a-zA-Z0-9.\-]+")
_NETBIOS_RE = re.compile(r"[\w!@#$%^()\-'{}\.~]{1,15}")

TRUE_TOKENS = ("t", "true", "1", "on", "yes", "y")
FALSE_TOKENS = ("f", "false", "0", "off", "no", "n")

STRING_KINDS = ("str", "ipv4", "ipv4net", "host", "url", "filename", "loglevel", "appmode")
DEFAULT_LEVELS = ["debug", "info", "warning", "error", "critical"]
DEFAULT_MODES = ["development", "production"]


class DigestMarker:
    """Normal form of a challenge value: 'a digest that verifies this plaintext'."""

    def __init__(self, plaintext):
        self.plaintext = plaintext.encode() if isinstance(plaintext, str) else plaintext

    def __repr__(self):
        return "DigestMarker(%r)" % (self.plaintext,)


class WeirdError(Exception):
    """An application-defined exception type (neither ValueError, TypeError nor OSError)."""


def run_validator(name, value, cfg=None, node=None):
    """The pool of custom field validators (pure)."""
    if not name or name == "v_ok":
        return value
    if name == "v_not42":
        if isinstance(value, (int, float, str)) and not isinstance(value, bool) and str(value) in ("42", "42.0"):
            raise ValueError("42 is not allowed")
        return value
    if name == "v_not7":
        # rejects 7 - with an exception that is NOT a ValueError (a validator is free to raise whatever it likes)
        if isinstance(value, (int, float, str)) and not isinstance(value, bool) and str(value) in ("7", "7.0"):
            raise [KeyError, RuntimeError, AttributeError, ZeroDivisionError, WeirdError][len(str(value)) % 5 if isinstance(value, str) else int(value) % 5]("7 is not allowed")
        return value
    if name == "v_short":
        # container/string-level rule: at most three items / characters
        if isinstance(value, (list, tuple, dict, str, bytes)) and len(value) > 3:
            raise ValueError("more than 3 items")
        return value
    if name == "v_cross":
        # cross-field rule: this value must not exceed the sibling named by the node (when both are set)
        if cfg is not None and node is not None:
            other = getattr(cfg, node["cross_with"], None)
            if other is not None and value is not None and not isinstance(other, bool) and value > other:
                raise ValueError("must be <= %s (%r)" % (node["cross_with"], other))
        return value
    raise AssertionError(name)


def run_schema_validator(cc, sv, cfg):
    """The pool of schema-level validators: pure predicates over what the configuration currently holds."""
    name = sv["name"]
    if name == "sv_ok":
        return
    if name == "sv_max_set":
        n = sum(1 for key, value in cfg if value is not None and not isinstance(value, cc.Config))
        if n > sv["k"]:
            raise ValueError("more than %d values set (%d)" % (sv["k"], n))
        return
    if name == "sv_min_set":
        n = sum(1 for key, value in cfg if value is not None and not isinstance(value, cc.Config))
        if n < sv["k"]:
            raise ValueError("fewer than %d values set (%d)" % (sv["k"], n))
        return
    raise AssertionError(name)


def _string_base(opts, value, required):
    """StringField semantics: type gate, transforms (strip, case), emptiness, length, pattern, choices."""
    if not isinstance(value, str):
        return (REJ, "not a string")
    case = opts.get("transform_case")
    strip = opts.get("transform_strip")


    def do_strip(v):
        if not strip:
            return v
        return v.strip(strip) if isinstance(strip, str) else v.strip()

    # "transformations prior to validating": strip, change case, and strip what the case change exposed, so
    # that the result is a fixed point of the transformation (validation is idempotent)
    value = do_strip(value)
    if case:
        value = value.lower() if case.lower() == "lower" else value.upper()
        value = do_strip(value)
    if required and not value:
        return (REJ, "required and empty")
    if opts.get("min_len") is not None and len(value) < opts["min_len"]:
        return (REJ, "too short")
    if opts.get("max_len") is not None and len(value) > opts["max_len"]:
        return (REJ, "too long")
    if opts.get("regex") and not re.compile(opts["regex"]).match(value):
        return (REJ, "pattern")
    if opts.get("choices") and value not in opts["choices"]:
        return (REJ, "not a choice")
    return (A, value)


def _number(type_cls, opts, value):
    if isinstance(value, bool) or not isinstance(value, (str, int, float)):
        return (REJ, "type")
    try:
        num = type_cls(value)
    except (ValueError, TypeError, OverflowError):
        return (REJ, "not convertible")
    lo, hi = opts.get("min"), opts.get("max")
    # inclusive bounds: min <= x <= max, so NaN is outside any declared bound
    if lo is not None and not num >= lo:
        return (REJ, "below min")
    if hi is not None and not num <= hi:
        return (REJ, "above max")
    return (A, num)


def _url(value):
    if ":" not in value:
        return (REJ, "no scheme")
    m = re.fullmatch(r"[a-zA-Z][a-zA-Z0-9+.-]*://[A-Za-z0-9.-]+(:[0-9]{1,4})?(/[A-Za-z0-9._~/-]*)?(\?[A-Za-z0-9=&_-]*)?", value)
    if m:
        return (A, value)
    if value[0] in ":0123456789/?#":
        return (REJ, "scheme cannot start like that")
    return (U, "scheme extraction is urllib's business")


def ref(spec, value, ctx=None):
    """Reference verdict for validating ``value`` against the field described by ``spec``."""
    required = bool(spec.get("req"))
    if value is None:
        return (REJ, "required") if required else (A, None)
    kind = spec["kind"]
    opts = spec.get("opts", {})
    res = _ref_kind(kind, opts, spec, value, required, ctx)
    if res[0] == A and spec.get("validator"):
        try:
            return (A, run_validator(spec["validator"], res[1]))
        except Exception:  # whatever a custom validator raises is a rejection
            return (REJ, "custom validator")
    return res


def _ref_kind(kind, opts, spec, value, required, ctx):
    if isinstance(value, Opaque):
        if kind in ("any", "secure"):
            return (A, value)  # (an object() is truthy)
        return (REJ, "opaque object")
    if kind == "any":
        return (A, value)
    if kind == "secure":
        # SecureField declares no type constraint; an empty secret is stored as "unset", so it cannot be required
        if required and not value:
            return (REJ, "required and empty")
        return (A, value)
    if kind in ("str", "loglevel", "appmode"):
        o = dict(opts)
        if kind == "loglevel":
            o.setdefault("transform_case", "lower")
            o.setdefault("transform_strip", True)
            o["choices"] = opts.get("levels") or DEFAULT_LEVELS
        if kind == "appmode":
            o.setdefault("transform_case", "lower")
            o.setdefault("transform_strip", True)
            o["choices"] = opts.get("modes") or DEFAULT_MODES
        return _string_base(o, value, required)
    if kind == "int":
        return _number(int, opts, value)
    if kind == "float":
        return _number(float, opts, value)
    if kind == "port":
        o = {"min": opts.get("min", 1), "max": opts.get("max", 65535)}
        return _number(int, o, value)
    if kind in ("bool", "featureflag"):
        if isinstance(value, bool):
            return (A, value)
        if isinstance(value, (int, float)):
            return (A, bool(value))
        if isinstance(value, str):
            if value.lower() in TRUE_TOKENS:
                return (A, True)
            if value.lower() in FALSE_TOKENS:
                return (A, False)
        return (REJ, "not a boolean")
    if kind == "ipv4":
        res = _string_base(opts, value, required)
        if res[0] != A:
            return res
        try:
            return (A, str(ipaddress.IPv4Address(res[1])))
        except ValueError:
            return (REJ, "not an address")
    if kind == "ipv4net":
        res = _string_base(opts, value, required)
        if res[0] != A:
            return res
        try:
            net = ipaddress.IPv4Network(res[1])
        except ValueError:
            return (REJ, "not a network")
        lo, hi = opts.get("min_prefix_len"), opts.get("max_prefix_len")
        if lo is not None and net.prefixlen < lo:
            return (REJ, "prefix too short")
        if hi is not None and net.prefixlen > hi:
            return (REJ, "prefix too long")
        return (A, str(net))
    if kind == "host":
        res = _string_base(opts, value, required)
        if res[0] != A:
            return res
        v = res[1]
        try:
            addr = ipaddress.IPv4Address(v)
        except ValueError:
            addr = None
        if addr is not None:
            return (A, str(addr)) if opts.get("allow_ipv4", True) else (REJ, "address not allowed")
        if _HOST_RE.fullmatch(v) or _NETBIOS_RE.fullmatch(v):
            return (A, v)
        return (REJ, "not a hostname")
    if kind == "url":
        res = _string_base(opts, value, required)
        if res[0] != A:
            return res
        return _url(res[1]) if res[1] else (REJ, "empty")
    if kind in ("filename", "include"):
        res = _string_base(opts, value, required)
        if res[0] != A:
            return res
        v = res[1]
        if not v:
            return (A, v)
        startdir = opts.get("startdir")
        if ctx and startdir:
            startdir = startdir.replace("$ROOT", ctx["root"])
        if not os.path.isabs(v) and startdir:
            v = os.path.abspath(os.path.expanduser(os.path.join(startdir, v)))
        exists = "file" if kind == "include" else opts.get("exists")
        there = os.path.exists(v)
        if exists is True and not there:
            return (REJ, "missing")
        if exists is False and there:
            return (REJ, "exists")
        if exists == "dir" and not os.path.isdir(v):
            return (REJ, "not a dir")
        if exists == "file" and not os.path.isfile(v):
            return (REJ, "not a file")
        return (A, v)
    if kind == "bytes":
        if isinstance(value, str):
            try:
                return (A, value.encode())
            except UnicodeEncodeError:
                return (REJ, "not encodable")
        if isinstance(value, bytes):
            return (A, value)
        return (REJ, "type")
    if kind == "challenge":
        if isinstance(value, (str, bytes)):
            try:
                return (A, DigestMarker(value))
            except UnicodeEncodeError:
                return (REJ, "not encodable")
        if isinstance(value, DigestMarker):
            return (A, value)
        if type(value).__name__ == "DigestValue":
            return (A, value)
        return (REJ, "type")
    if kind == "list":
        if not isinstance(value, (list, tuple)):
            return (REJ, "not a list")
        if required and not value:
            return (REJ, "required and empty")
        item = spec.get("item")
        if item is None or item["kind"] == "any":
            return (A, value)
        out = []
        unknown = False
        for v in value:
            r = ref(item, v, ctx)
            if r[0] == REJ:
                return (REJ, "item: " + r[1])
            if r[0] == U:
                unknown = True
            else:
                out.append(r[1])
        return (U, "item") if unknown else (A, out)
    if kind == "dict":
        if not isinstance(value, dict):
            return (REJ, "not a dict")
        if required and not value:
            return (REJ, "required and empty")
        kf, vf = spec.get("keyf"), spec.get("valuef")
        if kf is None and vf is None:
            return (A, value)
        kf = kf or {"kind": "any"}
        vf = vf or {"kind": "any"}
        out = {}
        unknown = False
        for k, v in value.items():
            rk, rv = ref(kf, k, ctx), ref(vf, v, ctx)
            if rk[0] == REJ or rv[0] == REJ:
                return (REJ, "entry")
            if rk[0] == U or rv[0] == U:
                unknown = True
                continue
            try:
                out[rk[1]] = rv[1]
            except TypeError:
                return (REJ, "unhashable key")
        return (U, "entry") if unknown else (A, out)
    raise AssertionError("unknown kind %r" % (kind,))


# ------------------------------------------------------------------------------------------------


def value_eq(a, b):
    """Strict equality between an implementation value and a reference normal form."""
    if isinstance(b, DigestMarker):
        if type(a).__name__ != "DigestValue":
            return False
        try:
            a.challenge(b.plaintext)
            return True
        except ValueError:
            return False
    if isinstance(a, (list, tuple)) and isinstance(b, (list, tuple)) and not hasattr(a, "_fields") and not hasattr(b, "_fields"):
        # typed proxies compare as their built-in list; list vs tuple is a type difference
        if isinstance(a, tuple) != isinstance(b, tuple):
            return False
        return len(a) == len(b) and all(value_eq(x, y) for x, y in zip(a, b))
    if isinstance(a, dict) and isinstance(b, dict):
        if len(a) != len(b):
            return False
        for k, v in a.items():
            match = [kb for kb in b if type(kb) is type(k) and kb == k]
            if not match or not value_eq(v, b[match[0]]):
                return False
        return True
    if isinstance(a, float) and isinstance(b, float):
        if math.isnan(a) or math.isnan(b):
            return math.isnan(a) and math.isnan(b)
        return a == b and math.copysign(1, a) == math.copysign(1, b)
    if type(a) is not type(b):
        # str subclasses etc. are not expected; DigestValue vs DigestValue handled by tuple equality
        return False
    return a == b


def selftest():
    assert ref({"kind": "int", "opts": {"min": 1}}, "5") == (A, 5)
    assert ref({"kind": "int", "opts": {}}, True)[0] == REJ
    assert ref({"kind": "float", "opts": {"min": 0.0}}, float("nan"))[0] == REJ
    assert ref({"kind": "str", "opts": {"transform_strip": "a", "transform_case": "lower"}}, "Ab") == (A, "b")
    assert ref({"kind": "ipv4net", "opts": {"max_prefix_len": 0}}, "10.0.0.0/8")[0] == REJ
    assert ref({"kind": "host", "opts": {}}, "host\n")[0] == REJ
    assert ref({"kind": "host", "opts": {"allow_ipv4": False}}, "1.2.3.4")[0] == REJ
    assert ref({"kind": "bool"}, "YES") == (A, True)
    assert ref({"kind": "list", "item": {"kind": "int", "opts": {}}}, ["1", 2]) == (A, [1, 2])
    assert ref({"kind": "port", "opts": {}}, 65536)[0] == REJ
    assert value_eq([1, "a"], [1, "a"]) and not value_eq([1], [2]) and not value_eq([1], (1,)) and not value_eq([True], [1])
    assert value_eq({"a": [1.0]}, {"a": [1.0]}) and not value_eq({"a": [1.0]}, {"a": [1]})
