"""Operation histories over generated worlds: strategies and interpreter (shared by C01/C06/C12/C13)."""
import base64

from hypothesis import strategies as st

from . import refmodel, specs, trees
from .refmodel import A, U, DigestMarker, value_eq
from .worlds import CONTAINER_KINDS, get_path

FORMATS = trees.FORMATS


# -- pure helpers on specs ---------------------------------------------------------------------------


def spec_leaves(node, path=()):
    out = []
    for child in node["children"]:
        cpath = path + (child["key"],)
        if child["kind"] in ("schema", "configtype"):
            out.extend(spec_leaves(child, cpath))
        elif child["kind"] in ("virtual", "method"):
            continue
        else:
            out.append((cpath, child))
    return out


def spec_containers(node, path=()):
    out = []
    for child in node["children"]:
        cpath = path + (child["key"],)
        if child["kind"] in ("schema", "configtype"):
            out.append((cpath, child))
            out.extend(spec_containers(child, cpath))
    return out


def spec_readonly(node, path=()):
    out = []
    for child in node["children"]:
        cpath = path + (child["key"],)
        if child["kind"] in ("schema", "configtype"):
            out.extend(spec_readonly(child, cpath))
        elif child["kind"] in ("virtual", "method"):
            out.append((cpath, child))
    return out


def basic_form(node, raw, ctx):
    """The on-disk (tree) form a user would write for ``raw`` if it is acceptable; else ``raw`` itself."""
    kind = node["kind"]
    if raw is None:
        return None
    verdict = refmodel.ref(dict(node, req=False), specs.realize(raw), ctx)
    if verdict[0] != A:
        return raw
    n = verdict[1]
    if kind == "bytes":
        enc = node.get("opts", {}).get("encoding", "base64")
        return base64.b64encode(n).decode() if enc == "base64" else n.hex()
    if kind in ("challenge", "secure"):
        return raw if isinstance(raw, str) else ("pw" if kind == "challenge" else raw)
    if kind == "list":
        item = node.get("item")
        if item:
            return [basic_form(item, x, ctx) for x in raw]
        return list(raw) if isinstance(raw, tuple) else raw
    if kind == "dict":
        vf = node.get("valuef")
        if vf:
            return {k: basic_form(vf, v, ctx) for k, v in raw.items()}
    return raw


def expected_after_load(node, basic, ctx):
    """Reference: what a field reads as after its basic (tree) value was loaded. -> verdict tuple"""
    kind = node["kind"]
    if basic is None:
        return refmodel.ref(node, None, ctx)
    real = specs.realize(basic)
    if kind == "bytes":
        if not isinstance(real, str):
            return (refmodel.REJ, "not a string")
        try:
            enc = node.get("opts", {}).get("encoding", "base64")
            py = base64.b64decode(real) if enc == "base64" else bytes.fromhex(real)
        except ValueError:
            return (refmodel.REJ, "encoding")
        return refmodel.ref(node, py, ctx)
    if kind in ("challenge",):
        if isinstance(real, dict):
            return (U, "salt/digest map")
        if not isinstance(real, str):
            return (refmodel.REJ, "type")
        return refmodel.ref(node, real, ctx)
    if kind == "secure":
        if isinstance(real, dict):
            return (U, "ciphertext map")
        if isinstance(real, str):
            return refmodel.ref(node, real, ctx)
        return (refmodel.REJ, "shape")
    if kind == "list" and node.get("item"):
        if not isinstance(real, (list, tuple)):
            # to_python is lenient here (a string is iterated, a falsy scalar becomes an empty list): not modelled
            return (U, "not a list: to_python leniency")
        out = []
        for x in real:
            r = expected_after_load(node["item"], x, ctx)
            if r[0] != A:
                return r
            out.append(r[1])
        if node.get("req") and not out:
            return (refmodel.REJ, "required and empty")
        return (A, out)
    if kind == "dict" and (node.get("keyf") or node.get("valuef")):
        if not isinstance(real, dict):
            return (U, "not a dict: to_python leniency")
        out = {}
        for k, v in real.items():
            rk = expected_after_load(node.get("keyf") or {"kind": "any"}, k, ctx)
            rv = expected_after_load(node.get("valuef") or {"kind": "any"}, v, ctx)
            if rk[0] != A or rv[0] != A:
                return rk if rk[0] != A else rv
            try:
                out[rk[1]] = rv[1]
            except TypeError:
                return (refmodel.REJ, "unhashable")
        if node.get("req") and not out:
            return (refmodel.REJ, "required and empty")
        return (A, out)
    return refmodel.ref(node, real, ctx)


def is_plain(tree, fmt):
    """Is this tree inside ``fmt``'s representable domain (so that a document can carry it)?"""
    if tree is None or isinstance(tree, bool):
        return True
    if isinstance(tree, int):
        return fmt != "bson" or -2 ** 63 <= tree < 2 ** 63
    if isinstance(tree, float):
        return True
    if isinstance(tree, str):
        try:
            tree.encode()
        except UnicodeEncodeError:
            return False
        return fmt != "xml" or trees.xml_text_ok(tree)
    if isinstance(tree, list):
        return all(is_plain(v, fmt) for v in tree)
    if isinstance(tree, dict):
        for k, v in tree.items():
            if not isinstance(k, str) or not is_plain(k, fmt) or not is_plain(v, fmt):
                return False
            if fmt == "xml" and not _ncname(k):
                return False
            if fmt == "bson" and "\x00" in k:
                return False
        return True
    return False


def _ncname(k):
    import re
    return bool(re.fullmatch(r"[A-Za-z_][A-Za-z0-9_.\-]*", k))


# -- strategies ------------------------------------------------------------------------------------------


def value_for(node):
    """Raw value strategy for a leaf node (schemalist: list of item trees)."""
    if node["kind"] == "schemalist":
        return st.one_of(st.lists(item_tree(node), max_size=3), st.lists(item_tree(node), max_size=3), specs.junk())
    return specs.values(node)


def item_tree(listnode, valid_bias=True):
    return subtree(listnode, full=False)


def subtree(node, full=False):
    """A (partial) basic tree for the sub-configuration described by ``node``."""
    entries = {}
    for child in node["children"]:
        key = child["key"]
        if child["kind"] in ("schema", "configtype"):
            entries[key] = subtree(child, full)
        elif child["kind"] in ("virtual", "method"):
            continue
        else:
            entries[key] = value_for(child).map(lambda raw, _c=child: ("$leaf", raw))
    if not entries:
        return st.just({})
    keys = list(entries)
    if full:
        chosen = st.just(keys)
    else:
        chosen = st.lists(st.sampled_from(keys), unique=True, max_size=len(keys))
    return chosen.flatmap(lambda ks: st.fixed_dictionaries({k: entries[k] for k in ks}))


def resolve_tree(node, tree, ctx, to_basic=True):
    """Replace the ("$leaf", raw) markers by basic forms. Lists of items recurse."""
    out = {}
    if not isinstance(tree, dict):
        return tree
    by_key = {c["key"]: c for c in node["children"]}
    for key, val in tree.items():
        child = by_key.get(key)
        if child is None:
            out[key] = val
        elif child["kind"] in ("schema", "configtype"):
            out[key] = resolve_tree(child, val, ctx, to_basic)
        elif isinstance(val, tuple) and len(val) == 2 and val[0] == "$leaf":
            raw = val[1]
            if child["kind"] == "schemalist":
                out[key] = [resolve_tree(child, t, ctx, to_basic) for t in raw] if isinstance(raw, list) else raw
            else:
                out[key] = basic_form(child, raw, ctx) if to_basic else raw
        else:
            out[key] = val
    return out


def weighted(*pairs):
    """Weighted choice between strategies. (st.one_of flattens nested one_ofs, which silently turns
    'one_of(base, base, extra)' into a uniform choice over all of base's branches plus one.)"""
    total = sum(w for w, _ in pairs)

    def pick(k):
        for w, strat in pairs:
            if k < w:
                return strat
            k -= w
        raise AssertionError
    return st.integers(0, total - 1).flatmap(pick)


def op_strategy(spec, max_ops, routes=None):
    """Histories over the schema described by ``spec`` (operands are indices resolved modulo the state)."""
    return st.lists(single_op(spec), min_size=2, max_size=max_ops)


CMDLINE_KINDS = ("str", "ipv4", "ipv4net", "host", "url", "filename", "loglevel", "appmode", "secure", "include", "int", "port", "float", "bool", "featureflag")


def single_op(spec):
    """One operation on a configuration of ``spec``."""
    leaves = spec_leaves(spec)
    conts = spec_containers(spec)
    ro = spec_readonly(spec)
    typed_lists = [(p, n) for p, n in leaves if n["kind"] == "list" and n.get("item")]
    typed_dicts = [(p, n) for p, n in leaves if n["kind"] == "dict" and (n.get("keyf") or n.get("valuef"))]
    slists = [(p, n) for p, n in leaves if n["kind"] == "schemalist"]
    root_leaves = [(p, n) for p, n in leaves if len(p) == 1]
    D, J = st.fixed_dictionaries, st.just
    ops = []
    if leaves:
        pick = st.integers(0, len(leaves) - 1)
        setv = pick.flatmap(lambda i: D({"op": st.sampled_from(["setattr", "setitem"]), "leaf": J(i), "value": value_for(leaves[i][1])}))
        ops += [setv, setv, setv]
        ops.append(D({"op": J("reset"), "leaf": pick}))
    if root_leaves:
        def kwargs(idx):
            # (an explicit None is a keyword like any other: the field is then set to None by the caller)
            return D({"op": J("ctor"), "kw": st.fixed_dictionaries({root_leaves[i][0][0]: st.one_of(value_for(root_leaves[i][1]), value_for(root_leaves[i][1]), st.none()) for i in idx})})
        ops.append(st.lists(st.integers(0, len(root_leaves) - 1), unique=True, min_size=0, max_size=3).flatmap(kwargs))
    ops.append(D({"op": J("load_tree"), "tree": subtree(spec)}))
    ops.append(D({"op": J("loads"), "fmt": st.sampled_from(FORMATS), "tree": subtree(spec)}))
    if conts:
        pc = st.integers(0, len(conts) - 1)
        ops.append(pc.flatmap(lambda i: D({"op": J("assign_sub"), "cont": J(i), "how": st.sampled_from(["dict", "dict", "config", "junk"]),
                                           "tree": subtree(conts[i][1]), "junk": specs.junk()})))
    if leaves:
        # options exist for scalar fields reachable through plain nested schemas: choose among those (nested ones
        # first when there are any), mostly a non-empty command line
        plain = {()} | {p for p, n in conts if all(dict(conts).get(p[:k], {}).get("kind") == "schema" for k in range(1, len(p) + 1))}
        opt = [i for i, (p, n) in enumerate(leaves) if n["kind"] in CMDLINE_KINDS and p[:-1] in plain]
        nested = [i for i in opt if len(leaves[i][0]) > 1]
        pool = st.sampled_from(opt) if opt else st.integers(0, len(leaves) - 1)
        if nested:
            pool = st.one_of(st.sampled_from(nested), pool)
        one = pool.flatmap(lambda i: st.tuples(J(i), value_for(leaves[i][1])))
        cl = st.integers(0, 7).flatmap(lambda k: J([]) if k == 0 else st.lists(one, min_size=1, max_size=min(k, 3)))
        ops.append(D({"op": J("cmdline"), "args": cl, "ignore": st.one_of(st.none(), st.none(), st.integers(0, len(leaves) - 1))}))
    if ro:
        ops.append(D({"op": J("set_readonly"), "ro": st.integers(0, len(ro) - 1), "value": specs.junk()}))
    if typed_lists:
        def lop(i):
            item = typed_lists[i][1]["item"]
            v = specs.values(item)
            return D({"op": J("listop"), "tl": J(i), "what": st.sampled_from(["append", "insert", "extend", "setitem", "setslice", "iadd", "imul", "pop", "reverse", "clear", "sort", "extend-iter", "setslice-iter"]),
                      "v": v, "vs": st.lists(v, max_size=3), "i": st.integers(-4, 4)})
        lops = st.integers(0, len(typed_lists) - 1).flatmap(lop)
        ops += [lops] * 4

        def lfill(i):
            item = typed_lists[i][1]["item"]
            return D({"op": J("listfill"), "tl": J(i), "vs": st.lists(specs.values(item), min_size=4, max_size=8), "k": st.integers(0, 4)})
        ops.append(st.integers(0, len(typed_lists) - 1).flatmap(lfill))
    if typed_dicts:
        def dop(i):
            n = typed_dicts[i][1]
            k = specs.values(n["keyf"]) if n.get("keyf") else st.sampled_from(["a", "b", "c", 1, None])
            v = specs.values(n["valuef"]) if n.get("valuef") else specs.junk()
            k = k.filter(specs._hashable)
            return D({"op": J("dictop"), "td": J(i), "what": st.sampled_from(["setitem", "update", "update-pairs", "update-kw", "setdefault", "ior", "pop", "clear"]),
                      "k": k, "v": v, "kv": st.lists(st.tuples(k, v), max_size=3)})
        dops = st.integers(0, len(typed_dicts) - 1).flatmap(dop)
        ops += [dops] * 4
    if slists:
        def sop(i):
            node = slists[i][1]
            items = spec_leaves(node)
            tree = subtree(node)
            base = {"op": J("slistop"), "sl": J(i), "what": st.sampled_from(["append", "append-config", "insert", "extend", "setitem", "pop", "clear", "item-set", "item-set", "item-set", "iadd", "reappend", "reinsert"]),
                    "tree": tree, "trees": st.lists(tree, max_size=2), "i": st.integers(-3, 3), "junk": specs.junk()}
            if items:
                base["item_leaf"] = st.integers(0, len(items) - 1).flatmap(lambda j: st.tuples(J(j), value_for(items[j][1])))
            else:
                base["item_leaf"] = st.none()
            return D(base)
        sops = st.integers(0, len(slists) - 1).flatmap(sop)
        ops += [sops] * 4
    if len(leaves) >= 2:
        containers = [i for i, (p, n) in enumerate(leaves) if n["kind"] in ("list", "dict")]
        pool = containers if len(containers) >= 2 else list(range(len(leaves)))
        cp = D({"op": J("copy_from"), "leaf": st.sampled_from(pool), "src": st.sampled_from(pool), "how": st.sampled_from(["assign", "assign", "extend", "iadd", "update"])})
        ops += [cp, cp, cp] if len(containers) >= 2 else [cp]
    dyn = [p for p, n in [((), spec)] + spec_containers(spec) if n.get("dynamic")]
    if dyn:
        ops.append(D({"op": J("dyn_set"), "d": st.integers(0, len(dyn) - 1), "key": st.sampled_from(["extra1", "extra2", "zz"]), "value": specs.junk()}))
    return st.one_of(*ops)


# -- interpreter ---------------------------------------------------------------------------------------


class Outcome:
    def __init__(self, kind, exc=None, target=None, info=None):
        self.kind = kind  # "ok" | "raised" | "skipped"
        self.exc = exc
        self.target = target  # path tuple addressed (for read-back / collateral)
        self.info = info or {}


def set_via(cfg, path, value, how):
    if how == "setattr":
        setattr(get_path(cfg, path[:-1]), path[-1], value)
    else:
        cfg[".".join(path)] = value


def prepare(world, state, op):
    """Pre-step of in-place container ops: an unset typed list/dict is first assigned an empty one."""
    cfg = state["cfg"]
    leaves = spec_leaves(world.spec)
    name = op["op"]
    try:
        if name == "copy_from":
            # the value currently held by one field is offered to another field (whole assignment or in-place merge)
            path, node = leaves[op["leaf"] % len(leaves)]
            spath, snode = leaves[op["src"] % len(leaves)]
            if "fill" in op and spath != path:
                try:  # first put something into the source field (kept only if the source accepts it)
                    set_via(cfg, spath, specs.realize(op["fill"]), "setattr")
                except Exception:
                    pass
            value = get_path(cfg, spath)
            how = op["how"]
            out = Outcome("ok", target=path, info={"node": node, "value": value, "how": "setattr", "copy": True, "inplace": how != "assign"})
            if value is None or spath == path:
                return Outcome("skipped")
            if how == "assign":
                set_via(cfg, path, value, "setattr")
            else:
                dst = get_path(cfg, path)
                if isinstance(dst, list) and isinstance(value, (list, tuple)) and how in ("extend", "iadd"):
                    if how == "extend":
                        dst.extend(value)
                    else:
                        dst += value
                elif isinstance(dst, dict) and isinstance(value, dict) and how == "update":
                    dst.update(value)
                else:
                    return Outcome("skipped")
            return out
        if name == "listfill":
            # bring a typed list to an exact length with acceptable items (lengths around the limits of list-level rules)
            tls = [(p, n) for p, n in leaves if n["kind"] == "list" and n.get("item")]
            path, node = tls[op["tl"] % len(tls)]
            good = [v for v in (specs.realize(x) for x in op["vs"]) if v is not None and refmodel.ref(node["item"], v, world.ctx)[0] == A][: op["k"]]
            out = Outcome("ok", target=path, info={"node": node, "value": good, "how": "setattr"})
            set_via(cfg, path, good, "setattr")
            return out
        if name == "listop":
            tls = [(p, n) for p, n in leaves if n["kind"] == "list" and n.get("item")]
            path, empty = tls[op["tl"] % len(tls)][0], []
        elif name == "dictop":
            tds = [(p, n) for p, n in leaves if n["kind"] == "dict" and (n.get("keyf") or n.get("valuef"))]
            path, empty = tds[op["td"] % len(tds)][0], {}
        elif name == "slistop":
            sls = [(p, n) for p, n in leaves if n["kind"] == "schemalist"]
            path, empty = sls[op["sl"] % len(sls)][0], []
        else:
            return
        if get_path(cfg, path) is None:
            set_via(cfg, path, empty, "setattr")
    except Exception:
        pass


def apply_op(world, state, op):
    """Apply one op to ``state['cfg']`` (ctor ops may replace it). Returns an Outcome; never judges."""
    cc = world.cc
    prepare(world, state, op)
    cfg = state["cfg"]
    spec = world.spec
    leaves = spec_leaves(spec)
    name = op["op"]
    try:
        if name in ("setattr", "setitem"):
            path, node = leaves[op["leaf"] % len(leaves)]
            value = specs.realize(op["value"])
            if node["kind"] == "schemalist" and isinstance(value, list):
                value = [resolve_tree(node, t, world.ctx, to_basic=False) if isinstance(t, dict) else t for t in value]
            out = Outcome("ok", target=path, info={"node": node, "value": value, "how": name})
            set_via(cfg, path, value, name)
            return out
        if name == "reset":
            path, node = leaves[op["leaf"] % len(leaves)]
            out = Outcome("ok", target=path, info={"node": node})
            cc.reset_value(cfg, ".".join(path))
            return out
        if name == "ctor":
            kw = {k: specs.realize(v) for k, v in op["kw"].items()}
            by_key = {c["key"]: c for c in spec["children"]}
            for k, v in list(kw.items()):
                if by_key[k]["kind"] == "schemalist" and isinstance(v, list):
                    kw[k] = [resolve_tree(by_key[k], t, world.ctx, to_basic=False) if isinstance(t, dict) else t for t in v]
            out = Outcome("ok", info={"kw": kw, "by_key": by_key})
            new = world.schema(key_filename=state.get("keyfile"), **kw) if state.get("keyfile") else world.schema(**kw)
            state["cfg"] = new
            state["generation"] = state.get("generation", 0) + 1
            return out
        if name in ("load_tree", "loads"):
            tree = specs.realize(resolve_tree(spec, op["tree"], world.ctx))
            out = Outcome("ok", info={"tree": tree})
            if name == "loads":
                fmt = op["fmt"]
                if not is_plain(tree, fmt):
                    return Outcome("skipped")
                doc = cc.ConfigFormat.get(fmt).dumps(cfg, tree)
                out.info["fmt"] = fmt
                cfg.loads(doc, fmt)
            else:
                cfg.load_tree(tree)
            return out
        if name == "assign_sub":
            conts = spec_containers(spec)
            path, node = conts[op["cont"] % len(conts)]
            how = op["how"]
            if how == "junk":
                value = specs.realize(op["junk"])
                if isinstance(value, dict):
                    how = "dict"
            if how in ("dict", "config"):
                tree = specs.realize(resolve_tree(node, op["tree"], world.ctx))
                value = tree
                if how == "config":
                    f = real_field(world, path)
                    other = f.config_type() if isinstance(f, cc.core.ConfigTypeField) else cc.Config(f)
                    try:
                        other.load_tree(tree)
                    except Exception:
                        return Outcome("skipped")
                    value = other
            out = Outcome("ok", target=path, info={"node": node, "value": value, "how": how, "container": True})
            set_via(cfg, path, value, "setattr")
            return out
        if name == "cmdline":
            parser = cc.generate_argparse_parser(world.schema)
            dests = {a.dest for a in parser._actions}
            argv = []
            supplied = {}
            for idx, raw in op["args"]:
                path, node = leaves[idx % len(leaves)]
                dotted = ".".join(path)
                if dotted not in dests:
                    continue
                opt = "--" + dotted.replace(".", "-").replace("_", "-").lower()
                stype = storage_type(world, path)
                if stype in (str, int, float):
                    text = raw if isinstance(raw, str) else repr(raw) if not isinstance(raw, (int, float)) or isinstance(raw, bool) else str(raw)
                    if "$ROOT" in text:
                        text = specs.subst(text)
                    argv.append("%s=%s" % (opt, text))
                    supplied[path] = (node, text)
                elif stype is bool:
                    flag = bool(raw) if not isinstance(raw, str) else len(raw) % 2 == 0
                    argv.append(opt if flag else "--no-" + opt[2:])
                    supplied[path] = (node, flag)
            ignore = None
            if op.get("ignore") is not None:
                ignore = ".".join(leaves[op["ignore"] % len(leaves)][0])
            try:
                args = parser.parse_args(argv)
            except SystemExit:
                return Outcome("skipped")
            out = Outcome("ok", info={"supplied": supplied, "ignore": ignore, "argv": argv})
            cc.cmdline_args_override(cfg, args, ignore=ignore)
            return out
        if name == "set_readonly":
            ro = spec_readonly(spec)
            path, node = ro[op["ro"] % len(ro)]
            out = Outcome("ok", target=path, info={"node": node, "readonly": True, "value": op["value"]})
            set_via(cfg, path, specs.realize(op["value"]), "setattr")
            return out
        if name == "dyn_set":
            dyn = [p for p, n in [((), spec)] + spec_containers(spec) if n.get("dynamic")]
            path = dyn[op["d"] % len(dyn)] + (op["key"],)
            value = specs.realize(op["value"])
            out = Outcome("ok", target=path, info={"dynamic": True, "value": value})
            set_via(cfg, path, value, "setattr")
            return out
        if name == "copy_from":
            # the value currently held by one field is offered to another field (whole assignment or in-place merge)
            path, node = leaves[op["leaf"] % len(leaves)]
            spath, snode = leaves[op["src"] % len(leaves)]
            if "fill" in op and spath != path:
                try:  # first put something into the source field (kept only if the source accepts it)
                    set_via(cfg, spath, specs.realize(op["fill"]), "setattr")
                except Exception:
                    pass
            value = get_path(cfg, spath)
            how = op["how"]
            out = Outcome("ok", target=path, info={"node": node, "value": value, "how": "setattr", "copy": True, "inplace": how != "assign"})
            if value is None or spath == path:
                return Outcome("skipped")
            if how == "assign":
                set_via(cfg, path, value, "setattr")
            else:
                dst = get_path(cfg, path)
                if isinstance(dst, list) and isinstance(value, (list, tuple)) and how in ("extend", "iadd"):
                    if how == "extend":
                        dst.extend(value)
                    else:
                        dst += value
                elif isinstance(dst, dict) and isinstance(value, dict) and how == "update":
                    dst.update(value)
                else:
                    return Outcome("skipped")
            return out
        if name == "listop":
            tls = [(p, n) for p, n in leaves if n["kind"] == "list" and n.get("item")]
            path, node = tls[op["tl"] % len(tls)]
            lst = get_path(cfg, path)
            out = Outcome("ok", target=path, info={"node": node, "inplace": True, "what": op["what"]})
            if lst is None:
                # unset list: start from an empty typed list
                set_via(cfg, path, [], "setattr")
                lst = get_path(cfg, path)
            if not isinstance(lst, list):
                return Outcome("skipped")
            what, v, vs, i = op["what"], specs.realize(op["v"]), specs.realize(op["vs"]), op["i"]
            if what == "append":
                lst.append(v)
            elif what == "insert":
                lst.insert(i, v)
            elif what == "extend":
                lst.extend(vs)
            elif what == "extend-iter":
                lst.extend(iter(vs))
            elif what == "setitem":
                lst[i] = v
            elif what == "setslice":
                lst[i:i + 2] = vs
            elif what == "setslice-iter":
                lst[i:] = (x for x in vs)
            elif what == "iadd":
                lst += vs
            elif what == "imul":
                lst *= (abs(i) % 3) if len(lst) <= 200 else 1  # (no exponential growth over a long history)
            elif what == "pop":
                lst.pop()
            elif what == "reverse":
                lst.reverse()
            elif what == "clear":
                lst.clear()
            elif what == "sort":
                lst.sort()
            return out
        if name == "dictop":
            tds = [(p, n) for p, n in leaves if n["kind"] == "dict" and (n.get("keyf") or n.get("valuef"))]
            path, node = tds[op["td"] % len(tds)]
            dct = get_path(cfg, path)
            out = Outcome("ok", target=path, info={"node": node, "inplace": True, "what": op["what"]})
            if dct is None:
                set_via(cfg, path, {}, "setattr")
                dct = get_path(cfg, path)
            if not isinstance(dct, dict):
                return Outcome("skipped")
            what, k, v, kv = op["what"], specs.realize(op["k"]), specs.realize(op["v"]), [(specs.realize(a), specs.realize(b)) for a, b in op["kv"]]
            if what == "setitem":
                dct[k] = v
            elif what == "update1":
                dct.update({k: v})
            elif what == "update":
                dct.update(dict(kv))
            elif what == "update-pairs":
                dct.update(kv)
            elif what == "update-kw":
                dct.update(**{str(a): b for a, b in kv})
            elif what == "setdefault":
                dct.setdefault(k, v)
            elif what == "ior":
                dct |= dict(kv)
            elif what == "pop":
                dct.pop(k, None)
            elif what == "clear":
                dct.clear()
            return out
        if name == "slistop":
            sls = [(p, n) for p, n in leaves if n["kind"] == "schemalist"]
            path, node = sls[op["sl"] % len(sls)]
            lst = get_path(cfg, path)
            out = Outcome("ok", target=path, info={"node": node, "inplace": True, "what": op["what"]})
            if lst is None:
                set_via(cfg, path, [], "setattr")
                lst = get_path(cfg, path)
            if not isinstance(lst, list):
                return Outcome("skipped")
            what, i = op["what"], op["i"]
            tree = specs.realize(resolve_tree(node, op["tree"], world.ctx, to_basic=False))
            many = [specs.realize(resolve_tree(node, t, world.ctx, to_basic=False)) for t in op["trees"]]
            if what == "append":
                lst.append(tree)
            elif what == "append-config":
                item_t = world.types[("item",) + path]
                item = item_t()
                try:
                    item.load_tree(tree)
                except Exception:
                    return Outcome("skipped")
                lst.append(item)
            elif what == "insert":
                lst.insert(i, tree)
            elif what == "extend":
                lst.extend(many)
            elif what == "iadd":
                lst += many
            elif what == "setitem":
                lst[i] = tree if len(str(op["junk"])) % 3 else specs.realize(op["junk"])
            elif what == "pop":
                lst.pop()
            elif what == "clear":
                lst.clear()
            elif what in ("reappend", "reinsert"):
                # a configuration the list already holds is handed to the same list again
                if not lst:
                    return Outcome("skipped")
                item = lst[i % len(lst)]
                if what == "reappend":
                    lst.append(item)
                else:
                    lst.insert(i, item)
            elif what == "item-set":
                if not lst or op["item_leaf"] is None:
                    return Outcome("skipped")
                items = spec_leaves(node)
                j, raw = op["item_leaf"]
                ipath, inode = items[j % len(items)]
                target = lst[i % len(lst)]
                value = specs.realize(raw)
                out.info.update(item_index=i % len(lst), item_path=ipath, item_node=inode, value=value)
                set_via(target, ipath, value, "setattr")
            return out
        raise AssertionError("unknown op %r" % (name,))
    except Exception as exc:  # the judge decides what an exception means for its property
        out = locals().get("out") or Outcome("ok")
        out.kind = "raised"
        out.exc = exc
        return out


def real_field(world, path):
    schema = world.schema
    for key in path[:-1]:
        f = schema._fields[key]
        schema = f.config_type.__schema__ if isinstance(f, world.cc.core.ConfigTypeField) else f
    return schema._fields[path[-1]]


def storage_type(world, path):
    f = real_field(world, path)
    return getattr(f, "storage_type", None)


def read_matches(node, got, verdict):
    """Does the value read back equal the reference normal form?"""
    if verdict[0] != A:
        return True
    n = verdict[1]
    if n is None and node["kind"] in ("list", "dict") and got is not None and len(got) == 0:
        return True  # an unset typed list or dict may come back empty (the normalisation C02 allows)
    return value_eq(got, n)
