"""Generated schemas ("worlds"): spec strategy, builder, path table, deep snapshots, sweeps and ops.

A schema spec is a tree of nodes (plain data):
  leaf        : leaf_spec fields + {"key", "default": {"mode": none|const|callable, "value": raw}, "sensitive", "name"}
  schema      : {"kind": "schema", "key", "children": [...], "dynamic": bool}
  configtype  : {"kind": "configtype", "key", "children": [...]}
  schemalist  : {"kind": "schemalist", "key", "children": [...], "configtype": bool, "req": bool}
  virtual     : {"kind": "virtual", "key", "of": sibling key, "setter": bool}
  method      : {"kind": "method", "key"}
"""
import os

from hypothesis import strategies as st

from . import refmodel, sandbox, specs
from .refmodel import A, REJ, U, DigestMarker, value_eq

KEY_POOL = ["alpha", "beta", "gamma", "port", "host", "name", "mode", "x", "y", "z", "db", "http", "items", "opts",
            "level", "flag", "secret", "token", "data", "k1", "k2", "userid", "maxsize", "addr", "net", "path", "url",
            "auth", "tls", "cache", "limits", "tags", "peers", "w", "q"]
CONTAINER_KINDS = ("schema", "configtype", "schemalist")
NAMES = [None, None, None, "Friendly Name", "a name with: colon"]


class _Factory:
    """A default factory that is an object with __call__ (and a bound method of it)."""

    def __init__(self, fn):
        self.fn = fn

    def __call__(self):
        return self.fn()

    def make(self):
        return self.fn()


def _default_for(spec):
    """Strategy for the 'default' entry of a leaf: only defaults that are already valid and normal."""
    kind = spec["kind"]
    if kind in ("virtual", "method", "include"):
        return st.just({"mode": "none"})
    if kind == "challenge":
        return st.one_of(st.just({"mode": "none"}), st.just({"mode": "none"}),
                         st.sampled_from(["hunter2", "dflt-pässword"]).map(lambda v: {"mode": "const", "value": v}))
    ctx = specs.ref_ctx()

    def pick(raw):
        real = specs.realize(raw)
        verdict = refmodel.ref(dict(spec, req=False), real, ctx)
        if verdict[0] != A or verdict[1] is None:
            return {"mode": "none"}
        if spec.get("req") and verdict[1] in ("", [], {}, ()):
            return {"mode": "none"}
        item = spec.get("item") if kind == "list" else None
        if item and item["kind"] == "any" and isinstance(real, (list, tuple)) and any(refmodel.ref(item, x, ctx)[0] != A for x in real):
            # ListField(AnyField(required=True / validator=...)) does not look at assigned items but wraps its *default*
            # in a proxy that does: a None item (required) or an item its validator rejects makes the constructor raise.
            # A schema-authoring corner ("declared defaults are themselves valid"), excluded.
            return {"mode": "none"}
        if value_eq(verdict[1], real) and type(verdict[1]) is type(real):
            return raw
        if kind in ("filename",):
            return {"mode": "none"}
        return verdict[1]

    def wrap(t):
        v, mode = t
        if isinstance(v, dict) and v.get("mode") == "none" and len(v) == 1:
            return v
        return {"mode": mode, "value": v}
    with_default = st.tuples(specs.values(spec).map(pick), st.sampled_from(["const", "callable"])).map(wrap)
    return st.one_of(st.just({"mode": "none"}), with_default, with_default)


def _plain(v):
    from . import codec
    try:
        return '"$o"' not in codec.dumps(v)  # opaque objects have no stable identity across realisations
    except TypeError:
        return False


def leaf_node(kinds=None, key=None):
    def finish(sp):
        return st.fixed_dictionaries({"default": _default_for(sp), "sensitive": st.sampled_from([None, None, True, False]),
                                      "name": st.sampled_from(NAMES)}).map(lambda extra: _clean(dict(sp, **extra)))
    return specs.leaf_spec(kinds).flatmap(finish)


def _clean(node):
    d = node.get("default") or {"mode": "none"}
    if d.get("mode") != "none" and not _plain(d.get("value")):
        d = {"mode": "none"}
    if d.get("mode") != "none" and d.get("value") is None:
        d = {"mode": "none"}
    node["default"] = d
    if node.get("sensitive") is None:
        node.pop("sensitive", None)
    if node.get("name") is None:
        node.pop("name", None)
    return node


def children_strategy(depth, width, kinds=None, allow=("schema", "configtype", "schemalist", "virtual", "method", "featureflag"), min_width=1):
    """A list of child nodes with unique keys: explicit counts of leaves, containers and misc members
    (one_of over a flat option list lets Hypothesis collapse towards leaf-only schemas)."""
    leaf_opts = [leaf_node(kinds)] * 4
    if kinds is None or "list" in kinds:
        leaf_opts.append(leaf_node(["list", "dict"]))
    leaf = st.one_of(*leaf_opts)
    conts, misc = [], []
    if depth > 0:
        sub = st.deferred(lambda: children_strategy(depth - 1, max(2, width - 1), kinds, allow, min_width))
        if "schema" in allow:
            conts += [st.fixed_dictionaries({"kind": st.just("schema"), "children": sub, "dynamic": st.sampled_from([False, False, True])})] * list(allow).count("schema")
        if "configtype" in allow:
            conts.append(st.fixed_dictionaries({"kind": st.just("configtype"), "children": sub}))
        if "schemalist" in allow:
            conts.append(st.fixed_dictionaries({"kind": st.just("schemalist"), "children": sub, "configtype": st.booleans(), "req": st.just(False)}))
    if "virtual" in allow:
        misc.append(st.fixed_dictionaries({"kind": st.just("virtual"), "setter": st.booleans()}))
    if "method" in allow:
        misc.append(st.just({"kind": "method"}))
    if "featureflag" in allow:
        misc.append(st.fixed_dictionaries({"kind": st.just("featureflag"), "req": st.just(False), "opts": st.just({}), "validator": st.none(),
                                           "default": st.sampled_from([{"mode": "none"}, {"mode": "const", "value": True}, {"mode": "const", "value": False}])}))

    def assign(t):
        leaves_, conts_, misc_, keys, order = t
        nodes = list(leaves_) + list(conts_) + list(misc_)
        nodes = [nodes[i] for i in order if i < len(nodes)]
        out = [dict(node, key=key) for node, key in zip(nodes, keys)]
        # virtual fields read a sibling leaf
        leaf_keys = [n["key"] for n in out if n["kind"] not in CONTAINER_KINDS + ("virtual", "method")]
        final = []
        for n in out:
            if n["kind"] == "virtual":
                if not leaf_keys:
                    continue
                n = dict(n, of=leaf_keys[len(n["key"]) % len(leaf_keys)])
            final.append(n)
        return final

    def build(counts):
        nl, nc, nm = counts
        total = nl + nc + nm
        return st.tuples(st.lists(leaf, min_size=nl, max_size=nl),
                         st.lists(st.one_of(*conts), min_size=nc, max_size=nc) if conts else st.just([]),
                         st.lists(st.one_of(*misc), min_size=nm, max_size=nm) if misc else st.just([]),
                         st.lists(st.sampled_from(KEY_POOL), min_size=total, max_size=total, unique=True),
                         st.permutations(list(range(total)))).map(assign)

    n_leaf = st.integers(min(min_width, width), width)
    n_cont = st.sampled_from([0, 1, 1, 2]) if conts else st.just(0)
    n_misc = st.sampled_from([0, 0, 1, 1, 2]) if misc else st.just(0)
    return st.tuples(n_leaf, n_cont, n_misc).flatmap(build)


def schema_spec(tier, kinds=None, allow=None, depth=None, width=None, min_width=1):
    depth = depth if depth is not None else (2 if tier == "quick" else 3)
    width = width if width is not None else (4 if tier == "quick" else 6)
    kw = {"min_width": min_width}
    if allow is not None:
        kw["allow"] = allow
    return st.fixed_dictionaries({"kind": st.just("schema"), "key": st.none(), "dynamic": st.sampled_from([False, False, False, True]),
                                  "children": children_strategy(depth, width, kinds, **kw)})


# ------------------------------------------------------------------------------------------------
# builder
# ------------------------------------------------------------------------------------------------


class World:
    """A real schema built from a spec plus lookup tables."""

    def __init__(self, cc, spec):
        self.cc = cc
        self.spec = spec
        self.counters = {}
        self.types = {}
        self.vlog = []  # (kind, path, name, id(cfg), passed) for every validator invocation
        self.schema = self._build_schema(spec, ())
        self.ctx = specs.ref_ctx()

    # -- construction ------------------------------------------------------------------------
    def _default(self, node, path):
        d = node.get("default") or {"mode": "none"}
        if d["mode"] == "none":
            return {}
        value = d["value"]
        if d["mode"] == "const":
            return {"default": specs.realize(value)}
        counter = self.counters.setdefault(path, [0])

        def call():
            counter[0] += 1
            return specs.realize(value)

        # "callable" means callable(): a plain function, a functools.partial, an object with __call__, a bound method
        form = sum(map(ord, ".".join(map(str, path)))) % 4
        if form == 1:
            import functools
            return {"default": functools.partial(lambda _c: _c(), call)}
        if form == 2:
            return {"default": _Factory(call)}
        if form == 3:
            return {"default": _Factory(call).make}
        return {"default": call}

    def _schema_validator(self, path, sv):
        from .refmodel import run_schema_validator

        def check(cfg, _path=path, _sv=sv):
            try:
                run_schema_validator(self.cc, _sv, cfg)
            except ValueError:
                self.vlog.append(("schema", _path, _sv["name"], id(cfg), False))
                raise
            self.vlog.append(("schema", _path, _sv["name"], id(cfg), True))
        return check

    def _log_field_validator(self, field, path, name, node=None):
        from .refmodel import run_validator

        def check(cfg, value, _path=path, _name=name):
            try:
                out = run_validator(_name, value, cfg, node)
            except Exception:
                self.vlog.append(("field", _path, _name, id(cfg), False))
                raise
            self.vlog.append(("field", _path, _name, id(cfg), True))
            return out
        field.validator = check

    def _build_schema(self, node, path, as_item=False):
        cc = self.cc
        schema = cc.Schema(dynamic=bool(node.get("dynamic")))
        for sv in node.get("svalidators") or []:
            cc.validator(schema)(self._schema_validator(path, sv))
        for child in node["children"]:
            key = child["key"]
            cpath = path + (key,)
            kind = child["kind"]
            if kind == "schema":
                schema._add_field(key, self._build_schema(child, cpath))
            elif kind == "configtype":
                sub = self._build_schema(child, cpath)
                typ = cc.make_type(sub, "T_" + "_".join(cpath), module=__name__)
                self.types[cpath] = typ
                schema._add_field(key, typ)
            elif kind == "schemalist":
                if child.get("shared_from") and ("item",) + path + (child["shared_from"],) in self.types:
                    item = self.types[("item",) + path + (child["shared_from"],)]  # one item type, several lists
                else:
                    sub = self._build_schema(child, cpath + ("[]",), as_item=True)
                    if child.get("configtype"):
                        item = cc.make_type(sub, "I_" + "_".join(cpath), module=__name__)
                        self.types[cpath] = item
                    else:
                        item = sub
                self.types.setdefault(("item",) + cpath, item)
                kw = {"sensitive": child["sensitive"]} if child.get("sensitive") is not None else {}
                schema._add_field(key, cc.ListField(item, required=bool(child.get("req")), **kw))
            elif kind == "virtual":
                of = child["of"]
                setter = None
                if child.get("setter"):
                    def setter(cfg, value, _log=self.counters.setdefault(("vset",) + cpath, [])):
                        _log.append(value)
                vkw = {"sensitive": child["sensitive"]} if child.get("sensitive") is not None else {}
                schema._add_field(key, cc.VirtualField(lambda cfg, _of=of: getattr(cfg, _of), setter, **vkw))
            elif kind == "method":
                cc.instance_method(schema, key)(lambda cfg, a=1, *args, **kw: ("called", a))
            else:
                late = child.get("sensitive_late") and child.get("sensitive") is not None
                field = specs.build_field(cc, dict(child, sensitive=None) if late else child, **self._default(child, cpath))
                if child.get("validator"):
                    self._log_field_validator(field, cpath, child["validator"], child)
                schema._add_field(key, field)
                if late:
                    field.sensitive = child["sensitive"]  # the public attribute, set after the field joined its schema
        return schema

    # -- navigation --------------------------------------------------------------------------
    def leaves(self, node=None, path=(), inside_list=False):
        """[(path, node)] for every value-carrying leaf reachable without entering list items."""
        node = node or self.spec
        out = []
        for child in node["children"]:
            cpath = path + (child["key"],)
            if child["kind"] in ("schema", "configtype"):
                out.extend(self.leaves(child, cpath))
            elif child["kind"] == "schemalist":
                out.append((cpath, child))
            elif child["kind"] in ("virtual", "method"):
                continue
            else:
                out.append((cpath, child))
        return out

    def containers(self, node=None, path=()):
        node = node or self.spec
        out = []
        for child in node["children"]:
            cpath = path + (child["key"],)
            if child["kind"] in ("schema", "configtype"):
                out.append((cpath, child))
                out.extend(self.containers(child, cpath))
        return out

    def readonly(self, node=None, path=()):
        node = node or self.spec
        out = []
        for child in node["children"]:
            cpath = path + (child["key"],)
            if child["kind"] in ("schema", "configtype"):
                out.extend(self.readonly(child, cpath))
            elif child["kind"] in ("virtual", "method"):
                out.append((cpath, child))
        return out

    def new_config(self, **kw):
        return self.schema(**kw)


def get_path(cfg, path):
    obj = cfg
    for key in path:
        obj = obj[key] if not key.startswith("_") and hasattr(obj, "_schema") else getattr(obj, key)
    return obj


def parent_of(cfg, path):
    return get_path(cfg, path[:-1])


# ------------------------------------------------------------------------------------------------
# deep snapshot: everything observable about a configuration
# ------------------------------------------------------------------------------------------------


def freeze(value, cc, with_ids=False):
    """A comparable deep copy of a value with type tags (and object identities when asked)."""
    if isinstance(value, cc.Config):
        return ("cfg", snapshot(value, cc, with_ids)) + ((id(value),) if with_ids else ())
    if isinstance(value, (list, tuple)) and not isinstance(value, cc.DigestValue):
        return (type(value).__name__, [freeze(v, cc, with_ids) for v in value]) + ((id(value),) if with_ids and isinstance(value, list) else ())
    if isinstance(value, dict):
        return (type(value).__name__, [(freeze(k, cc), freeze(v, cc, with_ids)) for k, v in value.items()]) + ((id(value),) if with_ids else ())
    if isinstance(value, float):
        return ("float", repr(value))
    if isinstance(value, cc.DigestValue):
        return ("digest", bytes(value.salt), bytes(value.digest))
    if isinstance(value, (str, int, bool, bytes, type(None))):
        return (type(value).__name__, value)
    return ("obj", id(value))


def snapshot(cfg, cc, with_ids=False):
    """Deep snapshot through the public read API: values, user-defined marks, (identities)."""
    out = {}
    for key, value in cfg:
        entry = {"v": freeze(value, cc, with_ids)}
        try:
            entry["defined"] = cc.is_value_defined(cfg, key)
        except Exception as exc:  # pragma: no cover
            entry["defined"] = repr(exc)
        out[key] = entry
    return out


def snapshot_ids(cfg, cc):
    """Identity of every nested configuration and container (C06)."""
    out = {}
    for key, value in cfg:
        if isinstance(value, cc.Config):
            out[key] = (id(value), snapshot_ids(value, cc))
        elif isinstance(value, (list, dict)):
            out[key] = (id(value), [id(v) for v in (value.values() if isinstance(value, dict) else value)])
    return out


def diff(a, b, path=""):
    """First difference between two snapshots (None when equal)."""
    if a == b:
        return None
    if isinstance(a, dict) and isinstance(b, dict):
        for k in list(a) + [k for k in b if k not in a]:
            if k not in a:
                return "%s.%s: appeared (%r)" % (path, k, b[k])
            if k not in b:
                return "%s.%s: disappeared" % (path, k)
            d = diff(a[k], b[k], "%s.%s" % (path, k))
            if d:
                return d
    if isinstance(a, tuple) and isinstance(b, tuple) and a and b and a[0] == b[0] == "cfg":
        return diff(a[1], b[1], path)
    return "%s: %r -> %r" % (path, a, b)


# ------------------------------------------------------------------------------------------------
# C01 sweep: every readable value is unset or valid-and-normal for its field
# ------------------------------------------------------------------------------------------------


def node_ref(world, node, value):
    return refmodel.ref(dict(node, req=False) if value is None else node, value, world.ctx)


def sweep(world, cfg, R, site, node=None, path=()):
    """Check every value readable from cfg against the reference model. Returns #values seen."""
    cc = world.cc
    node = node or world.spec
    seen = 0
    for child in node["children"]:
        key = child["key"]
        cpath = path + (key,)
        kind = child["kind"]
        if kind == "method":
            continue
        try:
            value = getattr(cfg, key)
            via_item = cfg[key]
        except Exception as exc:
            if kind == "virtual":
                continue
            R.fail("sweep-read", site, "reading %s raised %r" % (".".join(cpath), exc))
            continue
        if kind == "virtual":
            continue
        if kind in ("schema", "configtype"):
            if R.check(isinstance(value, cc.Config), "sweep", site + ":subconfig", "%s holds %r, not a configuration" % (".".join(cpath), value)):
                seen += sweep(world, value, R, site, child, cpath)
            continue
        if kind == "schemalist":
            if value is None:
                continue
            if not R.check(isinstance(value, list), "sweep", site + ":schemalist", "%s holds %r" % (".".join(cpath), value)):
                continue
            for i, item in enumerate(value):
                if R.check(isinstance(item, cc.Config), "sweep", site + ":schemalist-item", "%s[%d] is %r, not a configuration" % (".".join(cpath), i, item)):
                    seen += sweep(world, item, R, site, child, cpath + ("[%d]" % i,))
            continue
        seen += 1
        R.check(value is via_item or value == via_item, "sweep", site + ":getitem", "attribute and item access disagree")
        if value is None:
            continue
        judged = dict(child, req=False)  # 'required' is C11's concern, not a C01 constraint
        if kind in ("list", "dict") and (child.get("item") or child.get("keyf") or child.get("valuef")):
            # a typed container may have been mutated in place since it was assigned: items / entries are validated
            # then, the field's own custom validator (not one of the declared constraints C01 lists) is not run again
            judged["validator"] = None
        verdict = refmodel.ref(judged, value, world.ctx)
        if verdict[0] == U:
            R.unknown += 1
            continue
        ok = verdict[0] == A and (value_eq(value, verdict[1]) or isinstance(verdict[1], DigestMarker))
        if kind == "challenge":
            ok = type(value).__name__ == "DigestValue"
        R.check(ok, "sweep", "%s:%s" % (site, kind),
                lambda: "%s holds %r (%s) which %s" % (".".join(cpath), value, type(value).__name__,
                                                     "is rejected by its field: " + str(verdict[1]) if verdict[0] == REJ else "is not in normal form (%r)" % (verdict[1],)))
    # dynamic extras carry no constraint
    return seen
