"""Runner: replay tier, known findings, collect-then-shrink generation, sharding, evidence.

A property module (vlib/props/cXX.py) provides

    ID, LEVEL, RULE, ASSUMPTIONS, REQUIRED (labels that must occur), DESIGN_REF
    budget(tier)     -> {"cases": per-shard generated cases, "shards": n}
    strategy(tier)   -> Hypothesis strategy of *case descriptors* (plain data, see codec)
    exhaustive(tier) -> optional iterable of descriptors enumerated completely
    run_case(case, R)-> interpreter + oracle; reports through R, never raises for a violation

Exit codes: 0 held, 1 violation (with VIOLATION lines), 2 harness error.
"""
import argparse
import collections
import importlib
import json
import os
import subprocess
import sys
import time
import traceback

from . import codec, sandbox
from .sandbox import HarnessError

VERIF_DIR = os.path.dirname(os.path.dirname(os.path.abspath(__file__)))
MAX_SAMPLES = 8
MAX_SHRINK_SIGS = 4


class Result:
    """What one case execution reports."""

    def __init__(self):
        self.failures = []  # (signature, message)
        self.labels = []
        self.nontrivial = False
        self.unknown = 0
        self.excluded = 0
        self.checks = 0
        self.harness = None

    def fail(self, clause, site, msg=""):
        sig = "%s@%s" % (clause, site) if site else clause
        self.failures.append((sig, str(msg)[:600]))

    def check(self, cond, clause, site, msg=""):
        self.checks += 1
        if not cond:
            self.fail(clause, site, msg() if callable(msg) else msg)
        return cond

    def label(self, *names):
        self.labels.extend(names)

    @property
    def sigs(self):
        return [s for s, _ in self.failures]


class Stats:
    def __init__(self):
        self.evaluations = 0
        self.nontrivial = set()
        self.labels = collections.Counter()
        self.unknown = 0
        self.excluded = 0
        self.checks = 0
        self.sigs = {}  # sig -> {"count", "case", "msg", "size", "seed"}
        self.samples = []
        self.nt_samples = []
        self.harness = []
        self.exhaustive_cases = 0

    def add(self, case, res, seed=None):
        self.evaluations += 1
        self.unknown += res.unknown
        self.excluded += res.excluded
        self.checks += res.checks
        for name in set(res.labels):
            self.labels[name] += 1
        if res.nontrivial:
            h = codec.case_hash(case)
            if h not in self.nontrivial:
                self.nontrivial.add(h)
                n = len(self.nontrivial)
                # keep an evenly thinning reservoir of non-trivial samples
                if len(self.nt_samples) < MAX_SAMPLES or (n & (n - 1)) == 0:
                    self.nt_samples.append(codec.clip(case))
                    if len(self.nt_samples) > 2 * MAX_SAMPLES:
                        self.nt_samples = self.nt_samples[::2]
        elif len(self.samples) < 2:
            self.samples.append(codec.clip(case))
        if res.harness and len(self.harness) < 3:
            self.harness.append({"trace": res.harness, "case": codec.clip(case, 4000)})
        seen = set()
        for sig, msg in res.failures:
            if sig in seen:
                continue
            seen.add(sig)
            size = codec.size(case)
            cur = self.sigs.get(sig)
            if cur is None:
                self.sigs[sig] = {"count": 1, "case": codec.encode(case), "msg": msg, "size": size,
                                  "seed": seed}
            else:
                cur["count"] += 1
                if size < cur["size"]:
                    cur.update(case=codec.encode(case), msg=msg, size=size, seed=seed)

    def to_json(self):
        return {
            "evaluations": self.evaluations, "nontrivial": sorted(self.nontrivial),
            "labels": dict(self.labels), "unknown": self.unknown, "excluded": self.excluded,
            "checks": self.checks, "sigs": self.sigs, "samples": self.samples,
            "nt_samples": self.nt_samples, "harness": self.harness,
            "exhaustive_cases": self.exhaustive_cases,
        }

    def merge_json(self, d):
        self.evaluations += d["evaluations"]
        self.nontrivial.update(d["nontrivial"])
        self.labels.update(d["labels"])
        self.unknown += d["unknown"]
        self.excluded += d["excluded"]
        self.checks += d["checks"]
        self.exhaustive_cases += d.get("exhaustive_cases", 0)
        for sig, info in d["sigs"].items():
            cur = self.sigs.get(sig)
            if cur is None:
                self.sigs[sig] = info
            else:
                cur["count"] += info["count"]
                if info["size"] < cur["size"]:
                    cnt = cur["count"]
                    cur.update(info)
                    cur["count"] = cnt
        self.samples = (self.samples + d["samples"])[:2]
        self.nt_samples = (self.nt_samples + d["nt_samples"])
        self.harness = (self.harness + d["harness"])[:3]


def _is_cc_frame(filename):
    cc = sandbox._state["cc"]
    if cc is None:
        return False
    pkg = os.path.dirname(os.path.realpath(cc.__file__))
    return os.path.realpath(filename).startswith(pkg + os.sep)


class CaseTimeout(BaseException):
    """Raised by the per-case watchdog (a BaseException, so that no 'except Exception' swallows it)."""


CASE_TIMEOUT_S = float(os.environ.get("VERIF_CASE_TIMEOUT", "600"))


def _on_timer(signum, frame):
    raise CaseTimeout()


def execute(mod, case):
    """Run the interpreter on one descriptor. Violations are reported in the Result.

    A case that runs longer than CASE_TIMEOUT_S (hundreds of times the normal cost) is abandoned and labelled
    'case-timeout': the run is then inconclusive (exit 2), never a violation."""
    import signal
    import threading
    res = Result()
    watchdog = threading.current_thread() is threading.main_thread() and hasattr(signal, "setitimer")
    if watchdog:
        previous = signal.signal(signal.SIGALRM, _on_timer)
        signal.setitimer(signal.ITIMER_REAL, CASE_TIMEOUT_S, CASE_TIMEOUT_S)
    try:
        mod.run_case(case, res)
    except CaseTimeout:
        res.label("case-timeout")
    except HarnessError:
        raise
    except Exception as exc:  # pylint: disable=broad-except
        frames = traceback.extract_tb(exc.__traceback__)
        cc_frames = [f for f in frames if _is_cc_frame(f.filename)]
        if cc_frames:
            last = cc_frames[-1]
            site = "%s:%s:%s" % (type(exc).__name__, os.path.basename(last.filename), last.name)
            res.fail("crash", site, "uncaught exception out of the code under test: %r" % (exc,))
        else:
            res.harness = "".join(traceback.format_exception(type(exc), exc, exc.__traceback__))[-3000:]
    finally:
        if watchdog:
            signal.setitimer(signal.ITIMER_REAL, 0)
            signal.signal(signal.SIGALRM, previous)
    return res


def _settings(n, shrink=False):
    from hypothesis import HealthCheck, Phase, settings
    import hypothesis.internal.conjecture.engine as engine

    # A case is a whole schema plus a history: give one test case 8x the default entropy budget, otherwise
    # large cases are silently discarded as overruns and the distribution collapses towards tiny schemas.
    engine.BUFFER_SIZE = 64 * 1024

    phases = [Phase.generate, Phase.shrink] if shrink else [Phase.generate]
    return settings(
        max_examples=n, phases=phases, database=None, deadline=None, derandomize=False,
        report_multiple_bugs=False, print_blob=False,
        suppress_health_check=[HealthCheck.too_slow, HealthCheck.data_too_large,
                               HealthCheck.large_base_example],
    )


def collect(mod, tier, seed, n, stats, budget_s=None):
    """Generate ``n`` cases; the oracle never raises, failures become signatures."""
    import hypothesis
    from hypothesis import given

    t0 = time.time()
    state = {"skipped": 0}

    @hypothesis.seed(seed)
    @_settings(n)
    @given(mod.strategy(tier))
    def body(case):
        if budget_s is not None and time.time() - t0 > budget_s:
            state["skipped"] += 1
            return
        stats.add(case, execute(mod, case), seed=seed)

    try:
        body()
    except hypothesis.errors.FailedHealthCheck as exc:
        raise HarnessError("hypothesis health check failed: %s" % exc) from exc
    return state["skipped"]


def shrink(mod, tier, seed, n, sig, fallback, limit_s):
    """Second pass: raise only for ``sig`` and let Hypothesis shrink the descriptor."""
    import hypothesis
    from hypothesis import given

    t0 = time.time()
    best = {"case": fallback, "size": codec.size(fallback)}

    class Hit(Exception):
        pass

    @hypothesis.seed(seed)
    @_settings(n, shrink=True)
    @given(mod.strategy(tier))
    def body(case):
        if time.time() - t0 > limit_s:
            return
        res = execute(mod, case)
        if sig in res.sigs:
            size = codec.size(case)
            if size <= best["size"]:
                best["case"], best["size"] = case, size
            raise Hit(sig)

    try:
        body()
    except BaseException as exc:  # Hit, Flaky, ... : the best descriptor seen is what counts
        if isinstance(exc, (KeyboardInterrupt, SystemExit)):
            raise
    return best["case"]


# ------------------------------------------------------------------------------------------------


def run_fuzz(prop_id, seed, cfg, stats, errors):
    """Run fuzz/fuzz_target.py (atheris) in parallel campaigns and merge what they collected."""
    deps = os.path.join(VERIF_DIR, ".deps")
    try:
        probe = subprocess.run([sys.executable, "-c", "import sys; sys.path.insert(0, %r); import atheris" % deps], capture_output=True)
        available = probe.returncode == 0
    except Exception:
        available = False
    if not available:
        return {"available": False, "note": "atheris is not installed in /verif/.deps (run MANIFEST.setup_cmd); campaign skipped"}
    outdir = os.path.join(sandbox.root(), "fuzz")
    os.makedirs(outdir, exist_ok=True)
    procs = []
    for k in range(cfg.get("campaigns", 4)):
        corpus = os.path.join(outdir, "corpus%d" % k)
        os.makedirs(corpus, exist_ok=True)
        statsfile = os.path.join(outdir, "stats%d.json" % k)
        env = dict(os.environ)
        env.pop("HOME", None)
        cmd = [sys.executable, os.path.join(VERIF_DIR, "fuzz", "fuzz_target.py"), prop_id, statsfile, corpus,
               "-runs=%d" % cfg["runs"], "-seed=%d" % (seed * 100 + k + 1), "-max_len=8192", "-len_control=0", "-print_final_stats=1"]
        procs.append((k, statsfile, subprocess.Popen(cmd, env=env, cwd=VERIF_DIR, stdout=subprocess.PIPE, stderr=subprocess.PIPE)))
    info = {"available": True, "campaigns": len(procs), "runs_per_campaign": cfg["runs"], "executions": 0, "cov": [], "corpus": []}
    for k, statsfile, proc in procs:
        so, se = proc.communicate()
        text = se.decode(errors="replace")
        if not os.path.exists(statsfile):
            errors.append("fuzz campaign %d produced no stats (exit %s)\n%s" % (k, proc.returncode, text[-1500:]))
            continue
        with open(statsfile) as fp:
            d = json.load(fp)
        info["executions"] += d.get("fuzz_executions", 0)
        stats.merge_json(d)
        import re
        m = re.findall(r"cov: (\d+) ft: (\d+) corp: (\d+)", text)
        if m:
            info["cov"].append(int(m[-1][0]))
            info["corpus"].append(int(m[-1][2]))
    return info


def load_known(prop_id):
    path = os.path.join(VERIF_DIR, "known_findings.json")
    if not os.path.exists(path):
        return []
    with open(path) as fp:
        data = json.load(fp)
    return [f for f in data.get("findings", []) if f.get("property") == prop_id]


def load_case_file(path):
    with open(path) as fp:
        data = json.load(fp)
    return codec.decode(data["case"]), data


def shard_main(mod, tier, seed, shard, n, out, budget_s):
    stats = Stats()
    skipped = collect(mod, tier, seed * 1000 + shard, n, stats, budget_s)
    d = stats.to_json()
    d["skipped"] = skipped
    with open(out, "w") as fp:
        json.dump(d, fp)


def run_check(prop_id, tier, seed, replay=None, shard=None, out=None, cases=None):
    t_start = time.time()
    if replay:
        replay = os.path.abspath(replay)  # the sandbox changes the working directory
    os.environ["VERIF_TIER"] = tier
    sandbox.setup()
    mod = importlib.import_module("vlib.props.%s" % prop_id.lower())
    if hasattr(mod, "selftest"):
        try:
            mod.selftest()
        except Exception as exc:
            raise HarnessError("reference self-test failed: %r" % (exc,)) from exc

    budget = mod.budget(tier)
    n = cases or budget["cases"]
    budget_s = budget.get("budget_s")

    if shard is not None:
        shard_main(mod, tier, seed, shard, n, out, budget_s)
        return 0

    if replay:
        case, meta = load_case_file(replay)
        res = execute(mod, case)
        if res.harness:
            sys.stderr.write(res.harness)
            return 2
        for sig, msg in res.failures:
            print("FAIL %s: %s" % (sig, msg))
        if res.failures:
            print("VIOLATION property=%s replay=%s" % (prop_id, os.path.relpath(replay, VERIF_DIR)))
            return 1
        print("PASS property=%s replay=%s checks=%d" % (prop_id, os.path.relpath(replay, VERIF_DIR), res.checks))
        return 0

    stats = Stats()
    known_sigs = {}
    violations = {}  # sig -> info

    # -- known findings: re-execute each reproducer ------------------------------------------
    for finding in load_known(prop_id):
        case, _ = load_case_file(os.path.join(VERIF_DIR, finding["reproducer"]))
        res = execute(mod, case)
        if res.harness:
            raise HarnessError("known-finding reproducer crashed the harness:\n" + res.harness)
        if finding["signature"] in res.sigs:
            print("KNOWN-FINDING: property=%s %s" % (prop_id, finding["what_fails"]))
            known_sigs[finding["signature"]] = 0
        # a reproducer that passes now (repaired) suppresses nothing
        for sig, msg in res.failures:
            if sig != finding["signature"] and sig not in known_sigs:
                violations.setdefault(sig, {"case": codec.encode(case), "msg": msg, "count": 1,
                                            "size": codec.size(case), "seed": None})
    if hasattr(mod, "set_known"):
        mod.set_known(set(known_sigs))

    # -- launch extra shards -----------------------------------------------------------------
    shards = budget.get("shards", 1)
    procs = []
    outdir = os.path.join(sandbox.root(), "shards")
    os.makedirs(outdir, exist_ok=True)
    for k in range(1, shards):
        outfile = os.path.join(outdir, "s%d.json" % k)
        env = dict(os.environ)
        env.pop("HOME", None)
        cmd = [sys.executable, os.path.join(VERIF_DIR, "check.py"), prop_id, "--tier", tier,
               "--shard", str(k), "--out", outfile, "--seed", str(seed)]
        if cases:
            cmd += ["--cases", str(cases)]
        procs.append((k, outfile, subprocess.Popen(cmd, env=env, cwd=VERIF_DIR,
                                                   stdout=subprocess.PIPE, stderr=subprocess.PIPE)))

    # -- replay tier -------------------------------------------------------------------------
    corpus_dir = os.path.join(VERIF_DIR, "corpus", prop_id)
    corpus_n = 0
    if os.path.isdir(corpus_dir):
        for name in sorted(os.listdir(corpus_dir)):
            if name.endswith(".json"):
                case, _ = load_case_file(os.path.join(corpus_dir, name))
                stats.add(case, execute(mod, case))
                corpus_n += 1

    # -- exhaustive sub-domains --------------------------------------------------------------
    exhaustive = False
    if hasattr(mod, "exhaustive"):
        for case in mod.exhaustive(tier):
            stats.add(case, execute(mod, case))
            stats.exhaustive_cases += 1
            exhaustive = True

    # -- generated cases, shard 0 in-process -------------------------------------------------
    skipped = collect(mod, tier, seed * 1000, n, stats, budget_s)

    shard_fail = []
    for k, outfile, proc in procs:
        so, se = proc.communicate()
        if proc.returncode != 0 or not os.path.exists(outfile):
            shard_fail.append("shard %d exit %s\n%s" % (k, proc.returncode, se.decode()[-2000:]))
            continue
        with open(outfile) as fp:
            d = json.load(fp)
        skipped += d.get("skipped", 0)
        stats.merge_json(d)

    # -- coverage-guided campaign (thorough tier, properties that ask for it) -----------------------------
    fuzz_info = None
    fz = getattr(mod, "FUZZ", None)
    if fz and tier == "thorough" and not os.environ.get("VERIF_NO_FUZZ"):
        fuzz_info = run_fuzz(prop_id, seed, fz, stats, shard_fail)

    # -- triage ------------------------------------------------------------------------------
    for sig, info in stats.sigs.items():
        if sig in known_sigs:
            known_sigs[sig] += info["count"]
        else:
            violations[sig] = info

    replay_paths = {}
    if violations:
        os.makedirs(os.path.join(VERIF_DIR, "replays"), exist_ok=True)
        limit = 25 if tier == "quick" else 90
        for i, (sig, info) in enumerate(sorted(violations.items(), key=lambda kv: kv[1]["size"])):
            case = codec.decode(info["case"])
            if i < MAX_SHRINK_SIGS and info.get("seed") is not None and not os.environ.get("VERIF_NO_SHRINK"):
                try:
                    case = shrink(mod, tier, info["seed"], n, sig, case, limit)
                except HarnessError:
                    pass
            res = execute(mod, case)
            msg = dict(res.failures).get(sig, info["msg"])
            fname = "%s-%s.json" % (prop_id, codec.case_hash([sig])[:10])
            rel = os.path.join("replays", fname)
            with open(os.path.join(VERIF_DIR, rel), "w") as fp:
                json.dump({"property": prop_id, "signature": sig, "message": msg,
                           "count": info["count"], "case": codec.encode(case)}, fp, indent=1)  # (key order of maps is part of a case)
            replay_paths[sig] = rel

    missing = [lab for lab in getattr(mod, "REQUIRED", []) if not stats.labels.get(lab)]

    # -- evidence ----------------------------------------------------------------------------
    samples = stats.nt_samples[:MAX_SAMPLES] or stats.samples
    if len(stats.nt_samples) > MAX_SAMPLES:
        step = len(stats.nt_samples) / float(MAX_SAMPLES)
        samples = [stats.nt_samples[int(i * step)] for i in range(MAX_SAMPLES)]
    evidence = {
        "property_id": prop_id,
        "tier": tier,
        "seed": seed,
        "level": mod.LEVEL,
        "coverage": {
            "evaluations": stats.evaluations,
            "distinct_nontrivial": len(stats.nontrivial),
            "rule": mod.RULE,
            "samples": samples,
            "oracle_clause_evaluations": stats.checks,
            "classes": dict(sorted(stats.labels.items())),
            "oracle_unknown": stats.unknown,
            "excluded_known": stats.excluded,
            "known_hits": known_sigs,
            "signatures": {s: {"count": i["count"], "message": i["msg"]} for s, i in violations.items()},
            "shards": shards,
            "cases_per_shard": n,
            "corpus_replayed": corpus_n,
            "exhaustive_subdomain_cases": stats.exhaustive_cases,
            "skipped_after_time_budget": skipped + stats.labels.get("case-timeout", 0),
            "missing_required_classes": missing,
        },
        "assumptions": list(getattr(mod, "ASSUMPTIONS", [])),
        "wall_s": round(time.time() - t_start, 2),
        "violations": len(violations),
    }
    if fuzz_info:
        evidence["coverage"]["atheris"] = fuzz_info
    if exhaustive and getattr(mod, "EXHAUSTIVE_NOTE", None):
        evidence["coverage"]["exhaustive_note"] = mod.EXHAUSTIVE_NOTE
    # evidence/ describes runs against /repo itself; a run against another tree (VERIF_REPO=<scratch copy>, used by the
    # mutation and seeded-change tools) leaves it alone and writes next to its scratch data instead
    repo = os.environ.get("VERIF_REPO") or "/repo"
    evidence_dir = os.path.join(VERIF_DIR, "evidence") if os.path.realpath(repo) == os.path.realpath("/repo") else os.path.join(sandbox.root(), "evidence")
    evidence["tree"] = os.path.realpath(repo)
    os.makedirs(evidence_dir, exist_ok=True)
    with open(os.path.join(evidence_dir, "%s.json" % prop_id), "w") as fp:
        json.dump(evidence, fp, indent=1, sort_keys=True)

    # -- verdict -----------------------------------------------------------------------------
    if violations:
        for sig, rel in replay_paths.items():
            info = violations[sig]
            print("FAIL %s (x%d): %s" % (sig, info["count"], info["msg"]))
            print("VIOLATION property=%s replay=%s" % (prop_id, rel))
        return 1
    timeouts = stats.labels.get("case-timeout", 0)
    if timeouts:
        sys.stderr.write("INCONCLUSIVE %d case(s) exceeded the per-case limit of %ds and were abandoned\n" % (timeouts, CASE_TIMEOUT_S))
    if stats.harness or shard_fail or missing or timeouts:
        for h in stats.harness:
            sys.stderr.write("HARNESS ERROR in case %s\n%s\n" % (json.dumps(h["case"])[:2000], h["trace"]))
        for s in shard_fail:
            sys.stderr.write("HARNESS ERROR %s\n" % s)
        if missing:
            sys.stderr.write("HARNESS ERROR required classes never generated: %s\n" % missing)
        return 2
    print("OK property=%s tier=%s seed=%d evaluations=%d nontrivial=%d known_hits=%s wall=%.1fs" % (
        prop_id, tier, seed, stats.evaluations, len(stats.nontrivial), known_sigs or 0,
        time.time() - t_start))
    return 0


def main(argv=None):
    ap = argparse.ArgumentParser()
    ap.add_argument("property")
    ap.add_argument("--tier", default=os.environ.get("VERIF_TIER", "quick"), choices=["quick", "thorough"])
    ap.add_argument("--seed", type=int, default=None)
    ap.add_argument("--replay")
    ap.add_argument("--shard", type=int)
    ap.add_argument("--out")
    ap.add_argument("--cases", type=int)
    args = ap.parse_args(argv)
    seed = args.seed if args.seed is not None else int(os.environ.get("VERIF_SEED", "1") or 1)

    if os.environ.get("PYTHONHASHSEED") != "0":
        env = dict(os.environ, PYTHONHASHSEED="0", PYTHONDONTWRITEBYTECODE="1")
        os.execve(sys.executable, [sys.executable] + sys.argv, env)

    try:
        code = run_check(args.property.upper(), args.tier, seed, replay=args.replay,
                         shard=args.shard, out=args.out, cases=args.cases)
    except HarnessError as exc:
        sys.stderr.write("HARNESS ERROR: %s\n" % exc)
        code = 2
    except Exception:  # pylint: disable=broad-except
        traceback.print_exc()
        code = 2
    sys.stdout.flush()
    sandbox.cleanup()
    return code
