"""Plain-data tree strategies per format domain and strict typed tree equality."""
import math

from hypothesis import strategies as st

FORMATS = ("json", "yaml", "bson", "xml", "pickle")

# XML 1.0 Char without \r (the property's XML domain); surrogates are never generated
_XML_RANGES = [(0x9, 0x9), (0xA, 0xA), (0x20, 0xD7FF), (0xE000, 0xFFFD), (0x10000, 0x10FFFF)]


def _chars(ranges):
    return st.one_of(*[st.characters(min_codepoint=a, max_codepoint=b, exclude_categories=("Cs",))
                       for a, b in ranges])


CONFUSABLE_STRINGS = [
    "", " ", "1", "0", "-1", "1.0", "1e3", "true", "false", "True", "no", "on", "y", "n", "null",
    "None", "~", "nan", "inf", "-inf", ".inf", ".nan", "0x10", "0o7", "1_000", "[]", "{}", "[1]",
    "a: b", "- a", "#c", "'q'", '"q"', "<a/>", "&amp;", "a&b<c>d", "]]>", "\t", "\n", " a ", "a\nb",
    "a\n", "\na", "  ", "é", " ", "\x85", "﻿", "0.1", "1:2", "2001-01-01", "=", "!!str x",
    "*a", "&a", "|", ">", "%", "@", "`", "? a", "yes", "off", "\\", "\\n", "\x7f", "a" * 70,
    "a\n\nb", "x\n  \ny", "\n\n", " \n \n", "a\n\n", "\n\na", "\t\n\t", "a\n \n\nb\n", "  \n", "\n  ",
]


def text_strategy(fmt, max_size=12):
    if fmt == "xml":
        alpha = _chars(_XML_RANGES)
    else:
        alpha = st.characters(exclude_categories=("Cs",))
    ascii_heavy = st.characters(min_codepoint=0x20, max_codepoint=0x7E)
    lines = st.lists(st.sampled_from(["", " ", "  ", "a", "b c", "\t", "x"]), min_size=2, max_size=5).map("\n".join)
    base = st.one_of(st.text(ascii_heavy, max_size=max_size), st.text(alpha, max_size=max_size), lines)
    pool = [s for s in CONFUSABLE_STRINGS if fmt != "xml" or xml_text_ok(s)]
    return st.one_of(base, st.sampled_from(pool))


def xml_text_ok(s):
    for ch in s:
        c = ord(ch)
        if not any(a <= c <= b for a, b in _XML_RANGES):
            return False
    return True


_NAME_START = "abcdefghijklmnopqrstuvwxyzABCDEFGHIJKLMNOPQRSTUVWXYZ_"
_NAME_REST = _NAME_START + "0123456789-."


def key_strategy(fmt):
    """Map keys. XML: NCNames (ASCII subset plus a few non-ASCII letters)."""
    ncname = st.builds(lambda a, b: a + b, st.sampled_from(_NAME_START + "éλж"),
                       st.text(st.sampled_from(_NAME_REST + "éλж"), max_size=6))
    fixed = st.sampled_from(["a", "b", "c", "item", "config", "type", "x1", "_", "key", "value"])
    if fmt == "xml":
        return st.one_of(fixed, ncname)
    anytext = st.text(st.characters(exclude_categories=("Cs",), exclude_characters="\x00"), max_size=6)
    odd = st.sampled_from(["", " ", "1", "true", "null", "a b", "a.b", "$x", "a:b", "-", "~", "#", "é"])
    return st.one_of(fixed, ncname, anytext, odd)


def int_strategy(fmt):
    edge = st.sampled_from([0, 1, -1, 2 ** 31 - 1, 2 ** 31, -2 ** 31, 2 ** 53, 2 ** 63 - 1, -2 ** 63])
    if fmt == "bson":
        return st.one_of(edge, st.integers(-2 ** 63, 2 ** 63 - 1))
    return st.one_of(edge, st.integers(-2 ** 63, 2 ** 63 - 1), st.sampled_from([2 ** 63, -2 ** 63 - 1, 2 ** 70, 10 ** 30]))


def float_strategy():
    return st.one_of(
        st.sampled_from([0.0, -0.0, 1.0, -1.5, 0.1, 1e16, 1e-7, 1e22, 1.7976931348623157e308,
                         5e-324, float("inf"), float("-inf"), float("nan"), 123456789.123456789]),
        st.floats(allow_nan=True, allow_infinity=True),
    )


def scalar_strategy(fmt):
    return st.one_of(st.none(), st.booleans(), int_strategy(fmt), float_strategy(), text_strategy(fmt))


def tree_strategy(fmt, max_leaves=12, top_map=True):
    """Plain-data trees in ``fmt``'s domain. The top level is a string-keyed map."""
    keys = key_strategy(fmt)
    node = st.recursive(
        scalar_strategy(fmt),
        lambda ch: st.one_of(st.lists(ch, max_size=4), st.dictionaries(keys, ch, max_size=4)),
        max_leaves=max_leaves,
    )
    if top_map:
        return st.dictionaries(keys, node, max_size=5)
    return node


def common_tree_strategy(max_leaves=12):
    """Trees in the intersection of all five domains (XML text/keys, 64-bit ints)."""
    keys = key_strategy("xml")
    scalars = st.one_of(st.none(), st.booleans(), int_strategy("bson"), float_strategy(), text_strategy("xml"))
    node = st.recursive(
        scalars,
        lambda ch: st.one_of(st.lists(ch, max_size=4), st.dictionaries(keys, ch, max_size=4)),
        max_leaves=max_leaves,
    )
    return st.dictionaries(keys, node, max_size=5)


def tree_eq(a, b):
    """Strict typed equality: bool != int != float != str, NaN == NaN, -0.0 != 0.0, key sets."""
    if type(a) is not type(b):
        return False
    if isinstance(a, float):
        if math.isnan(a) or math.isnan(b):
            return math.isnan(a) and math.isnan(b)
        return a == b and math.copysign(1, a) == math.copysign(1, b)
    if isinstance(a, list):
        return len(a) == len(b) and all(tree_eq(x, y) for x, y in zip(a, b))
    if isinstance(a, dict):
        return set(a) == set(b) and all(tree_eq(v, b[k]) for k, v in a.items())
    return a == b


def tree_diff(a, b, path="$"):
    """First difference, for messages."""
    if type(a) is not type(b):
        return "%s: %r (%s) != %r (%s)" % (path, a, type(a).__name__, b, type(b).__name__)
    if isinstance(a, list):
        if len(a) != len(b):
            return "%s: list length %d != %d" % (path, len(a), len(b))
        for i, (x, y) in enumerate(zip(a, b)):
            if not tree_eq(x, y):
                return tree_diff(x, y, "%s[%d]" % (path, i))
    if isinstance(a, dict):
        if set(a) != set(b):
            return "%s: key sets differ: %r vs %r" % (path, sorted(set(a) - set(b)), sorted(set(b) - set(a)))
        for k in a:
            if not tree_eq(a[k], b[k]):
                return tree_diff(a[k], b[k], "%s.%s" % (path, k))
    if not tree_eq(a, b):
        return "%s: %r != %r" % (path, a, b)
    return None


def depth(t):
    if isinstance(t, dict):
        return 1 + max([depth(v) for v in t.values()] or [0])
    if isinstance(t, list):
        return 1 + max([depth(v) for v in t] or [0])
    return 0


def has_confusable(t):
    if isinstance(t, dict):
        return (not t) or any(has_confusable(v) for v in t.values())
    if isinstance(t, list):
        return (not t) or any(has_confusable(v) for v in t)
    if isinstance(t, str):
        return t in CONFUSABLE_STRINGS or any(c in t for c in "<>&\"'\n\t:#-[]{}") or t != t.strip()
    if isinstance(t, float):
        return math.isnan(t) or math.isinf(t) or t == 0 or t == int(t)
    if isinstance(t, bool) or t is None:
        return True
    return False
