"""Case descriptor <-> JSON.

Descriptors are plain Python data.  JSON cannot carry bytes, tuples, sets, NaN/inf or opaque
objects, so those are tagged.  ``decode(encode(x))`` is structurally equal to ``x`` (NaN-aware).
"""
import hashlib
import json
import math


class Opaque:
    """A value that is not plain data (stands for 'some arbitrary object')."""

    def __init__(self, name="obj"):
        self.name = name

    def __repr__(self):
        return "<Opaque %s>" % self.name

    def __eq__(self, other):
        return isinstance(other, Opaque) and other.name == self.name

    def __hash__(self):
        return hash(("Opaque", self.name))


def encode(x):
    if x is None or isinstance(x, (bool, str)):
        return x
    if isinstance(x, int):
        if abs(x) > 2 ** 53:
            return {"$i": str(x)}
        return x
    if isinstance(x, float):
        if math.isnan(x):
            return {"$f": "nan"}
        if math.isinf(x):
            return {"$f": "inf" if x > 0 else "-inf"}
        if x == 0 and math.copysign(1, x) < 0:
            return {"$f": "-0.0"}
        return {"$f": repr(x)}
    if isinstance(x, bytes):
        return {"$b": x.hex()}
    if isinstance(x, tuple):
        return {"$t": [encode(i) for i in x]}
    if isinstance(x, (set, frozenset)):
        return {"$s": sorted((encode(i) for i in x), key=lambda v: json.dumps(v, sort_keys=True))}
    if isinstance(x, list):
        return [encode(i) for i in x]
    if isinstance(x, dict):
        if all(isinstance(k, str) and not k.startswith("$") for k in x):
            return {k: encode(v) for k, v in x.items()}
        return {"$d": [[encode(k), encode(v)] for k, v in x.items()]}
    if isinstance(x, Opaque):
        return {"$o": x.name}
    raise TypeError("cannot encode %r" % type(x))


def decode(x):
    if isinstance(x, list):
        return [decode(i) for i in x]
    if isinstance(x, dict):
        if len(x) == 1:
            (k, v), = x.items()
            if k == "$i":
                return int(v)
            if k == "$f":
                return float(v)
            if k == "$b":
                return bytes.fromhex(v)
            if k == "$t":
                return tuple(decode(i) for i in v)
            if k == "$s":
                return set(decode(i) for i in v)
            if k == "$d":
                return {decode(a): decode(b) for a, b in v}
            if k == "$o":
                return Opaque(v)
        return {k: decode(v) for k, v in x.items()}
    return x


def dumps(x, **kw):
    return json.dumps(encode(x), sort_keys=True, **kw)


def loads(s):
    return decode(json.loads(s))


def case_hash(x):
    return hashlib.sha1(dumps(x).encode()).hexdigest()


def size(x):
    return len(dumps(x))


def clip(x, limit=1500):
    """Encoded sample, clipped for evidence files."""
    enc = encode(x)
    s = json.dumps(enc, sort_keys=True)
    if len(s) <= limit:
        return enc
    return {"$clipped": s[:limit] + "...", "$len": len(s)}
