"""Independent pure-Python AES (FIPS-197) with CBC + PKCS7. Shares no code with `cryptography`.

Self-tested against FIPS-197 C.3 (AES-256 block) and SP 800-38A F.2.5 / F.2.6 (CBC-AES256).
"""

_SBOX = [0] * 256
_INV = [0] * 256


def _init():
    p = q = 1
    while True:
        # multiply p by 3
        p = p ^ ((p << 1) & 0xFF) ^ (0x1B if p & 0x80 else 0)
        # divide q by 3
        q ^= q << 1
        q ^= q << 2
        q ^= q << 4
        q &= 0xFF
        if q & 0x80:
            q ^= 0x09
        x = q ^ (((q << 1) | (q >> 7)) & 0xFF) ^ (((q << 2) | (q >> 6)) & 0xFF) \
            ^ (((q << 3) | (q >> 5)) & 0xFF) ^ (((q << 4) | (q >> 4)) & 0xFF)
        _SBOX[p] = (x ^ 0x63) & 0xFF
        if p == 1:
            break
    _SBOX[0] = 0x63
    for i, v in enumerate(_SBOX):
        _INV[v] = i


_init()


def _xt(a):
    return ((a << 1) ^ 0x1B) & 0xFF if a & 0x80 else a << 1


def _mul(a, b):
    r = 0
    while b:
        if b & 1:
            r ^= a
        a = _xt(a)
        b >>= 1
    return r


def _expand(key):
    nk = len(key) // 4
    nr = nk + 6
    w = [list(key[4 * i:4 * i + 4]) for i in range(nk)]
    rcon = 1
    for i in range(nk, 4 * (nr + 1)):
        t = list(w[i - 1])
        if i % nk == 0:
            t = t[1:] + t[:1]
            t = [_SBOX[b] for b in t]
            t[0] ^= rcon
            rcon = _xt(rcon)
        elif nk > 6 and i % nk == 4:
            t = [_SBOX[b] for b in t]
        w.append([a ^ b for a, b in zip(w[i - nk], t)])
    return [sum(w[4 * r:4 * r + 4], []) for r in range(nr + 1)], nr


def _add(s, k):
    return [a ^ b for a, b in zip(s, k)]


def _shift(s, inv=False):
    out = [0] * 16
    for c in range(4):
        for r in range(4):
            src = (c + (-r if inv else r)) % 4
            out[4 * c + r] = s[4 * src + r]
    return out


def _mix(s, inv=False):
    m = (14, 11, 13, 9) if inv else (2, 3, 1, 1)
    out = []
    for c in range(4):
        col = s[4 * c:4 * c + 4]
        for r in range(4):
            out.append(_mul(col[0], m[(0 - r) % 4]) ^ _mul(col[1], m[(1 - r) % 4])
                       ^ _mul(col[2], m[(2 - r) % 4]) ^ _mul(col[3], m[(3 - r) % 4]))
    return out


def encrypt_block(key, block):
    rk, nr = _expand(key)
    s = _add(list(block), rk[0])
    for r in range(1, nr):
        s = _add(_mix(_shift([_SBOX[b] for b in s])), rk[r])
    s = _add(_shift([_SBOX[b] for b in s]), rk[nr])
    return bytes(s)


def decrypt_block(key, block):
    rk, nr = _expand(key)
    s = _add(list(block), rk[nr])
    for r in range(nr - 1, 0, -1):
        s = _mix(_add([_INV[b] for b in _shift(s, True)], rk[r]), True)
    s = _add([_INV[b] for b in _shift(s, True)], rk[0])
    return bytes(s)


def cbc_encrypt_raw(key, iv, data):
    assert len(data) % 16 == 0 and len(iv) == 16
    out, prev = [], iv
    for i in range(0, len(data), 16):
        blk = bytes(a ^ b for a, b in zip(data[i:i + 16], prev))
        prev = encrypt_block(key, blk)
        out.append(prev)
    return b"".join(out)


def cbc_decrypt_raw(key, iv, data):
    assert len(data) % 16 == 0 and len(iv) == 16
    out, prev = [], iv
    for i in range(0, len(data), 16):
        blk = data[i:i + 16]
        out.append(bytes(a ^ b for a, b in zip(decrypt_block(key, blk), prev)))
        prev = blk
    return b"".join(out)


def pkcs7_pad(data):
    n = 16 - len(data) % 16
    return data + bytes([n]) * n


def pkcs7_unpad(data):
    if not data or len(data) % 16:
        raise ValueError("bad length")
    n = data[-1]
    if not 1 <= n <= 16 or data[-n:] != bytes([n]) * n:
        raise ValueError("bad padding")
    return data[:-n]


def encrypt(key, iv, plaintext):
    """AES-CBC/PKCS7, IV prepended (the layout the property describes)."""
    return iv + cbc_encrypt_raw(key, iv, pkcs7_pad(plaintext))


def decrypt(key, blob):
    if len(blob) < 32 or len(blob) % 16:
        raise ValueError("bad ciphertext length")
    return pkcs7_unpad(cbc_decrypt_raw(key, blob[:16], blob[16:]))


def selftest():
    h = bytes.fromhex
    # FIPS-197 C.3
    key = h("000102030405060708090a0b0c0d0e0f101112131415161718191a1b1c1d1e1f")
    pt = h("00112233445566778899aabbccddeeff")
    ct = h("8ea2b7ca516745bfeafc49904b496089")
    assert encrypt_block(key, pt) == ct and decrypt_block(key, ct) == pt
    # FIPS-197 C.1 (AES-128) — exercises the other key schedule branch
    assert encrypt_block(h("000102030405060708090a0b0c0d0e0f"), pt) == h("69c4e0d86a7b0430d8cdb78070b4c55a")
    # SP 800-38A F.2.5 / F.2.6
    key = h("603deb1015ca71be2b73aef0857d77811f352c073b6108d72d9810a30914dff4")
    iv = h("000102030405060708090a0b0c0d0e0f")
    pt = h("6bc1bee22e409f96e93d7e117393172aae2d8a571e03ac9c9eb76fac45af8e51"
           "30c81c46a35ce411e5fbc1191a0a52eff69f2445df4f9b17ad2b417be66c3710")
    ct = h("f58c4c04d6e5f1ba779eabfb5f7bfbd69cfc4e967edb808d679f777bc6702c7d"
           "39f23369a9d9bacfa530e26304231461b2eb05e2c39be9fcda6c19078c6a9d1b")
    assert cbc_encrypt_raw(key, iv, pt) == ct and cbc_decrypt_raw(key, iv, ct) == pt
    assert decrypt(key, encrypt(key, iv, b"hello")) == b"hello"
