"""Schema-spec and value strategies; spec -> real field builder.

Specs are plain data so that a whole case (schema + history) is one shrinkable, replayable value.
"""
import os

from hypothesis import strategies as st

from . import sandbox
from .codec import Opaque
from .refmodel import DEFAULT_LEVELS, DEFAULT_MODES

J = st.just
D = st.fixed_dictionaries

# -- a small fixed file tree inside the sandbox for filename/include fields -----------------------

FS_FILES = ["a.txt", "b.cfg", "sub/c.txt", "sub/deep/d.txt"]
FS_DIRS = ["sub", "sub/deep", "empty"]
FS_NAMES = ["a.txt", "b.cfg", "sub", "sub/c.txt", "sub/deep", "sub/deep/d.txt", "empty", "missing.txt", "sub/none",
            "./a.txt", "sub/../a.txt", "empty/", "c.txt", "deep/d.txt", "../a.txt"]


def fs_root():
    root = os.path.join(sandbox.root(), "fs")
    if not os.path.isdir(root):
        for d in FS_DIRS:
            os.makedirs(os.path.join(root, d), exist_ok=True)
        for f in FS_FILES:
            with open(os.path.join(root, f), "w") as fp:
                fp.write("x")
    return root


def ref_ctx():
    fs_root()
    return {"root": sandbox.root()}


def subst(path):
    return path.replace("$ROOT", sandbox.root()) if isinstance(path, str) else path


# -- leaf specs ---------------------------------------------------------------------------------

REGEX_POOL = [
    r"^[a-z]+$", r"^[0-9]{2,4}$", r"[A-Z]", r"^a.*z$", r"^(foo|bar)$", r"\d+", r".*", r"^.{3}$",
    r"^\s*x\s*$", r"^[\w.-]+@[\w.-]+$", r"^[^,]*$", r"^ab?c*$",
]
CHOICE_POOL = [["a", "b", "c"], ["Red", "green", "BLUE"], ["x"], ["", "none"], [" padded ", "plain"],
               ["one", "two", "three", "four", "five", "six", "seven"], ["ß", "SS", "ss"]]
STRIP_POOL = [None, None, True, True, "a", "xy", " ", "-_", "Aa", "Z", ".", "\n", "ab"]

ALL_LEAF_KINDS = ["str", "int", "float", "port", "bool", "ipv4", "ipv4net", "host", "url", "filename", "bytes",
                  "loglevel", "appmode", "secure", "challenge", "any", "list", "dict"]
SCALAR_KINDS = ["str", "int", "float", "port", "bool", "ipv4", "ipv4net", "host", "url", "filename", "bytes",
                "loglevel", "appmode"]


def _opt(strategy, p_none=2):
    return st.one_of(*([st.none()] * p_none + [strategy]))


def string_opts():
    return D({
        "min_len": _opt(st.integers(0, 4)), "max_len": _opt(st.integers(0, 8)),
        "regex": _opt(st.sampled_from(REGEX_POOL), 3), "choices": _opt(st.sampled_from(CHOICE_POOL), 4),
        "transform_case": st.sampled_from([None, None, "lower", "upper", "Upper", "LOWER"]),
        "transform_strip": st.sampled_from(STRIP_POOL),
    }).map(lambda o: {k: v for k, v in o.items() if v is not None})


def _bounds(gen):
    def fix(t):
        lo, hi = t
        if lo is not None and hi is not None and lo > hi:
            lo, hi = hi, lo
        o = {}
        if lo is not None:
            o["min"] = lo
        if hi is not None:
            o["max"] = hi
        return o
    return st.tuples(_opt(gen, 1), _opt(gen, 1)).map(fix)


def leaf_spec(kinds=None, depth=1, required=None):
    """Strategy for one field spec of the given kinds (containers recurse once)."""
    kinds = kinds or ALL_LEAF_KINDS
    req = st.booleans() if required is None else J(required)

    def for_kind(kind):
        vals = [None, None, None, None, "v_ok", "v_not42"] + (["v_short", "v_short"] if kind in ("list", "dict") else ["v_short"] if kind == "str" else [])
        base = {"kind": J(kind), "req": req, "validator": st.sampled_from(vals)}
        if kind == "str":
            base["opts"] = string_opts()
        elif kind == "int":
            base["opts"] = _bounds(st.one_of(st.integers(-10, 10), st.sampled_from([0, -2 ** 63, 2 ** 63, 255, 1.5, -0.5])))
        elif kind == "float":
            base["opts"] = _bounds(st.one_of(st.integers(-10, 10), st.sampled_from([0.0, -1.5, 1e10, 0.1, float("inf"), float("-inf")])))
        elif kind == "port":
            base["opts"] = st.one_of(J({}), J({}), D({"max": st.sampled_from([1024, 65535, 80])}), D({"min": st.sampled_from([0, 1024])}))
        elif kind in ("bool", "any", "url", "ipv4"):
            base["opts"] = J({})
        elif kind == "ipv4net":
            def fixp(t):
                lo, hi = t
                if lo is not None and hi is not None and lo > hi:
                    lo, hi = hi, lo
                return {k: v for k, v in (("min_prefix_len", lo), ("max_prefix_len", hi)) if v is not None}
            pl = st.one_of(st.sampled_from([0, 8, 16, 24, 31, 32]), st.integers(0, 32))
            base["opts"] = st.tuples(_opt(pl, 1), _opt(pl, 1)).map(fixp)
        elif kind == "host":
            base["opts"] = D({"allow_ipv4": st.booleans()})
        elif kind == "filename":
            base["opts"] = D({"exists": st.sampled_from([None, False, True, "dir", "file"]),
                              "startdir": st.sampled_from(["$ROOT/fs", "$ROOT/fs", "$ROOT/fs/sub", "$ROOT/fs/sub/../sub", "fs", "fs/sub", "./fs", None])})
        elif kind == "bytes":
            base["opts"] = D({"encoding": st.sampled_from(["base64", "hex"])})
        elif kind == "loglevel":
            base["opts"] = st.one_of(J({}), D({"levels": J(["trace", "debug", "info"])}), D({"levels": J(["LOW", "high"]), "transform_case": J(None)}).map(lambda o: {"levels": o["levels"]}))
        elif kind == "appmode":
            base["opts"] = st.one_of(J({}), D({"modes": J(["dev", "prod", "test"])}), D({"modes": J(["a", "b"]), "create_helpers": J(False)}))
        elif kind == "secure":
            base["opts"] = D({"method": st.sampled_from(["best", "aes", "xor"])})
        elif kind == "challenge":
            base["opts"] = D({"alg": st.sampled_from(["md5", "sha1", "sha224", "sha256", "sha384", "sha512"])})
        elif kind == "list":
            base["opts"] = J({})
            if depth > 0:
                base["item"] = st.one_of(st.none(), leaf_spec([k for k in SCALAR_KINDS if k != "appmode"] + ["any", "secure", "challenge"], depth - 1), leaf_spec(["int", "str", "bytes", "bool"], depth - 1))
            else:
                base["item"] = st.none()
        elif kind == "dict":
            base["opts"] = J({})
            if depth > 0:
                keyf = st.one_of(st.none(), leaf_spec(["str", "loglevel", "host", "ipv4"], 0, required=False), leaf_spec(["str"], 0, required=False))
                valf = st.one_of(st.none(), leaf_spec([k for k in SCALAR_KINDS if k != "appmode"] + ["secure", "challenge"], depth - 1), leaf_spec(["int", "bytes", "bool"], depth - 1))
                # both / none typed: an untyped dict must stay common enough to be exercised
                pair = st.one_of(st.tuples(keyf, valf), st.tuples(keyf, valf), st.just((None, None)))
                base["_kv"] = pair
            else:
                base["keyf"] = st.none()
                base["valuef"] = st.none()
        else:
            raise AssertionError(kind)

        def unpack(d):
            if "_kv" in d:
                d = dict(d)
                d["keyf"], d["valuef"] = d.pop("_kv")
            return d
        return D(base).map(unpack)

    return st.sampled_from(kinds).flatmap(for_kind)


# -- real field from a spec -------------------------------------------------------------------------


def _validator_fn(name):
    from .refmodel import run_validator
    if not name:
        return None
    return lambda cfg, value: run_validator(name, value)


def build_field(cc, spec, **extra):
    """Instantiate the real field described by ``spec``."""
    kind = spec["kind"]
    opts = dict(spec.get("opts", {}))
    kw = dict(extra)
    if spec.get("req"):
        kw["required"] = True
    if spec.get("validator"):
        kw["validator"] = _validator_fn(spec["validator"])
    if spec.get("sensitive") is not None:
        kw["sensitive"] = spec["sensitive"]
    if spec.get("name"):
        kw["name"] = spec["name"]
    if spec.get("help"):
        kw["help"] = spec["help"]
    if kind == "str":
        return cc.StringField(**opts, **kw)
    if kind == "int":
        return cc.IntField(**opts, **kw)
    if kind == "float":
        return cc.FloatField(**opts, **kw)
    if kind == "port":
        return cc.PortField(**opts, **kw)
    if kind == "bool":
        return cc.BoolField(**kw)
    if kind == "featureflag":
        return cc.FeatureFlagField(**kw)
    if kind == "ipv4":
        return cc.IPv4AddressField(**opts, **kw)
    if kind == "ipv4net":
        return cc.IPv4NetworkField(**opts, **kw)
    if kind == "host":
        return cc.HostnameField(**opts, **kw)
    if kind == "url":
        return cc.UrlField(**opts, **kw)
    if kind == "filename":
        opts["startdir"] = subst(opts.get("startdir"))
        fs_root()
        return cc.FilenameField(**opts, **kw)
    if kind == "include":
        opts["startdir"] = subst(opts.get("startdir"))
        fs_root()
        return cc.IncludeField(**opts, **kw)
    if kind == "bytes":
        return cc.BytesField(**opts, **kw)
    if kind == "loglevel":
        return cc.LogLevelField(**opts, **kw)
    if kind == "appmode":
        return cc.ApplicationModeField(**opts, **kw)
    if kind == "secure":
        return cc.SecureField(**opts, **kw)
    if kind == "challenge":
        return cc.ChallengeField(opts.get("alg", "sha256"), **kw)
    if kind == "any":
        return cc.AnyField(**kw)
    if kind == "list":
        item = spec.get("item")
        if isinstance(item, dict) and item.get("kind") == "$schema":
            return cc.ListField(item["schema"], **kw)
        return cc.ListField(build_field(cc, item) if item else None, **kw)
    if kind == "dict":
        k, v = spec.get("keyf"), spec.get("valuef")
        return cc.DictField(build_field(cc, k) if k else None, build_field(cc, v) if v else None, **kw)
    raise AssertionError(kind)


# -- values -------------------------------------------------------------------------------------------

JUNK = [
    None, True, False, 0, 1, -1, 2 ** 63, -2 ** 63, 2 ** 200, 0.0, -0.0, 1.5, float("nan"), float("inf"), float("-inf"),
    "", " ", "0", "1", "42", "-7", "1.5", "1e3", "٣", "1_000", " 12 ", "true", "Yes", "off", "abc", "ABC", "a" * 300, "\n",
    "x\n", "127.0.0.1", "10.0.0.0/8", "host.example", "http://example.com/", b"", b"raw", b"\xff\xfe",
    [], [1], ["a", "b"], [None], (), (1, 2), {}, {"a": 1}, {"method": "xor"}, [[1]], {"a": {"b": [1]}},
]


def junk():
    return st.one_of(st.sampled_from(JUNK), st.sampled_from(JUNK), J(Opaque("object")), J({"x", "y"}),
                     st.integers(), st.floats(), st.text(max_size=6))


def _octet():
    return st.one_of(st.sampled_from([0, 1, 9, 10, 99, 100, 127, 192, 254, 255, 256, 300]), st.integers(0, 255))


def _addr_text():
    good = st.tuples(_octet(), _octet(), _octet(), _octet()).map(lambda t: ".".join(str(o) for o in t))
    odd = st.sampled_from(["1.2.3", "1.2.3.4.5", "01.2.3.4", "1.2.3.04", " 1.2.3.4", "1.2.3.4 ", "1.2.3.4\n", "١.٢.٣.٤", "1..3.4",
                           "0.0.0.0", "255.255.255.255", "1.2.3.-4", "+1.2.3.4", "0x7f.0.0.1", "127.1", "2130706433", "::1", ""])
    return st.one_of(good, good, odd)


def _net_text():
    plen = st.one_of(st.sampled_from([0, 1, 7, 8, 9, 16, 24, 30, 31, 32, 33]), st.integers(0, 32))

    def mk(t):
        (a, b, c, d), p, strict = t
        if strict:
            n = (a << 24 | b << 16 | c << 8 | d) & 0xFFFFFFFF
            if 0 <= p <= 32:
                n &= (0xFFFFFFFF << (32 - p)) & 0xFFFFFFFF
            a, b, c, d = n >> 24 & 255, n >> 16 & 255, n >> 8 & 255, n & 255
        return "%d.%d.%d.%d/%d" % (a, b, c, d, p)
    octs = st.tuples(*[st.integers(0, 255)] * 4)
    good = st.tuples(octs, plen, st.sampled_from([True, True, True, False])).map(mk)
    odd = st.sampled_from(["10.0.0.0", "10.0.0.0/255.0.0.0", "10.0.0.0/0.255.255.255", "10.0.0.1/8", "10.0.0.0/08", "10.0.0.0/ 8",
                           "10.0.0.0/-1", "10.0.0.0/", "/8", "10.0.0.0/8/8", "0.0.0.0/0", "1.2.3.4/32", "10.0.0.0/٨", "10.0.0.0/8\n"])
    return st.one_of(good, good, odd)


def _host_text():
    label = st.text(st.sampled_from("abcXYZ019-"), min_size=1, max_size=6)
    good = st.lists(label, min_size=1, max_size=3).map(".".join)
    odd = st.sampled_from(["a", "-a", "a-", "a_b", "NETBIOS~1", "this-is-longer-than-15", "under_score_longer_than_15", "a b",
                           "host\n", "host\n\n", "\nhost", "hôte", "hôte-très-long-nom-de-machine", "a!b", "ex ample.com", ".", "..",
                           "a.", ".a", "xn--bcher-kva.example", "1.2.3.4", "1.2.3.256", "01.2.3.4", "999.1", "", " host", "host ", "a/b"])
    return st.one_of(good, odd, _addr_text())


def _url_text():
    scheme = st.sampled_from(["http", "https", "ftp", "ws", "a+b.c-d", "file", "x"])
    hostp = st.sampled_from(["example.com", "localhost", "10.0.0.1", "a.b.c"])
    port = st.sampled_from(["", ":80", ":8080"])
    path = st.sampled_from(["", "/", "/a/b", "/a.b_c~d/-"])
    query = st.sampled_from(["", "?a=1", "?a=1&b=2"])
    good = st.tuples(scheme, hostp, port, path, query).map(lambda t: "%s://%s%s%s%s" % t)
    bad = st.sampled_from(["example.com", "/path/only", "//host/path", "", "1http://x", ":foo", "http//x", "?q=1", "#frag", "www.example.com/a"])
    other = st.sampled_from(["mailto:a@b", "http:", "http:/x", "HTTP://EXAMPLE.COM", "a:b", "http://[::1]/", "http://[::1", "x y://z", "ht tp://a"])
    return st.one_of(good, good, bad, other)


def _string_values(opts):
    """Values aimed at a StringField parameterisation: satisfy / just miss every option."""
    parts = [st.text(max_size=8), st.sampled_from(["", " ", "a", "ab", "abc", "Ab", "aB", "  ab  ", "foo", "bar", "a1z", "42", "x", " x ", "\tx\n",
                                                    "ß", "aß", "ﬁ", "İ", "aaß", "ßa"]),
             # characters that line-oriented formats fold, escape or treat as line breaks
             st.sampled_from(["\x85", "a\x85b", "\u2028", "a\u2029b", "\x0b", "\x0c", "\x1c", "\x7f", "\ufeffx", "a\n\nb", "tab\there", "'q'", '"q"', "a: b", "#c"])]
    if opts.get("choices"):
        ch = opts["choices"]
        parts.append(st.sampled_from(ch))
        parts.append(st.sampled_from(ch).map(lambda s: s.swapcase()))
        parts.append(st.sampled_from(ch).map(lambda s: " " + s + " "))
    strip = opts.get("transform_strip")
    if isinstance(strip, str) and strip:
        # transform-interaction class: edges drawn from the case variants of the strip set
        edge = st.text(st.sampled_from(sorted(set(strip + strip.upper() + strip.lower()))), max_size=2)
        core = st.text(st.sampled_from("bcqQ" + strip + strip.swapcase()), max_size=4)
        parts.append(st.tuples(edge, core, edge).map("".join))
        parts.append(st.tuples(edge, core, edge).map("".join))
    if opts.get("transform_case"):
        # characters whose case change alters the length (ß -> SS, ﬁ -> FI, İ -> i + combining dot)
        expanding = ["ß", "ﬁ", "İ", "ŉ", "ǰ", "ΐ"]
        parts.append(st.sampled_from(expanding + ["stra" + "ß" + "e", "a" + "ß", "ﬁx", "ßß", "İİ"]))
        if opts.get("max_len") is not None:
            n = opts["max_len"]
            parts.append(st.tuples(st.sampled_from(expanding), st.integers(0, 2)).map(lambda t: ("a" * max(n - 1 - t[1], 0)) + t[0]))
    if opts.get("regex"):
        parts.append(st.from_regex(opts["regex"]).filter(lambda s: len(s) < 40))
    for key in ("min_len", "max_len"):
        if opts.get(key) is not None:
            n = opts[key]
            parts.append(st.sampled_from([max(n - 1, 0), n, n + 1]).flatmap(lambda k: st.text(st.sampled_from("abAB z"), min_size=k, max_size=k)))
    return st.one_of(*parts)


def _num_values(opts, is_float):
    parts = [st.integers(-12, 12), st.integers(-12, 12).map(str), st.booleans(), st.sampled_from([b"1", [1], (1,), {"1": 1}, None]), st.sampled_from([" 7 ", "+3", "1_0", "٣", "0x10", "1e2", "1.0", "nan", "inf", "-inf", "", "abc"]),
             st.sampled_from([0.0, -0.0, 2.5, -1.5, 1e300, float("nan"), float("inf"), float("-inf")])]
    for key in ("min", "max"):
        b = opts.get(key)
        if b is not None and b == b and abs(b) != float("inf"):
            near = [b, b - 1, b + 1]
            if is_float:
                near += [b - 0.5, b + 0.5, float(b), b + 1e-9, b - 1e-9]
            parts.append(st.sampled_from(near))
            parts.append(st.sampled_from(near).map(lambda x: str(x)))
    if not is_float:
        parts.append(st.sampled_from([0, 1, 2, 1023, 1024, 1025, 65534, 65535, 65536, 79, 80, 81, -1, 2 ** 63, 2 ** 64]))
        parts.append(st.sampled_from(["65535", "65536", "0", "1", "080"]))
    return st.one_of(*parts)


def values(spec, depth=2):
    """Raw candidate values for ``spec``: constructed-valid, boundary, constructed-invalid, wrongly typed."""
    kind = spec["kind"]
    opts = spec.get("opts", {})
    if kind == "str":
        good = _string_values(opts)
    elif kind in ("int", "port"):
        o = opts if kind == "int" else {"min": opts.get("min", 1), "max": opts.get("max", 65535)}
        good = _num_values(o, False)
    elif kind == "float":
        good = _num_values(opts, True)
    elif kind in ("bool", "featureflag"):
        toks = ["t", "true", "1", "on", "yes", "y", "f", "false", "0", "off", "no", "n"]
        good = st.one_of(st.booleans(), st.sampled_from(toks), st.sampled_from(toks).map(str.upper), st.sampled_from(toks).map(str.title),
                         st.sampled_from([" true", "true ", "tru", "2", "maybe", "", "ｙ", "yes\n", 0, 1, 2, -1, 0.0, 0.5, float("nan")]))
    elif kind == "ipv4":
        good = _addr_text()
    elif kind == "ipv4net":
        good = _net_text()
    elif kind == "host":
        good = _host_text()
    elif kind == "url":
        good = _url_text()
    elif kind in ("filename", "include"):
        abs_names = st.sampled_from(FS_NAMES).map(lambda n: "$ROOT/fs/" + n)
        good = st.one_of(st.sampled_from(FS_NAMES), st.sampled_from(FS_NAMES), abs_names, st.sampled_from(["", "~", "~/x", ".", "..", "a.txt ", "A.TXT", "a.txt\x00"]))
    elif kind == "bytes":
        # (sizes around 57 / 76 bytes: where MIME-style base64 starts to wrap lines; a few hundred bytes for good measure)
        good = st.one_of(st.binary(max_size=8), st.text(max_size=6), st.sampled_from([b"", "", "é", b"\x00\xff", "aGVsbG8=", "deadbeef", b"deadbeefdeadbeef"]),
                         st.sampled_from([5, [b"a"], None, True, 1.5]),
                         st.sampled_from([56, 57, 58, 76, 77, 114, 115, 300]).flatmap(lambda n: st.binary(min_size=n, max_size=n)),
                         st.sampled_from([Opaque("bytearray:6162"), Opaque("memoryview:6162"), Opaque("bytearray:")]))
    elif kind == "loglevel":
        lv = opts.get("levels") or DEFAULT_LEVELS
        good = st.one_of(st.sampled_from(lv), st.sampled_from(lv).map(str.upper), st.sampled_from(lv).map(lambda s: "  %s\n" % s.title()),
                         st.sampled_from(["warn", "", "verbose", "DEBUG ", "inf o"]))
    elif kind == "appmode":
        md = opts.get("modes") or DEFAULT_MODES
        good = st.one_of(st.sampled_from(md), st.sampled_from(md).map(str.upper), st.sampled_from(md).map(lambda s: " %s " % s),
                         st.sampled_from(["staging", "", "prod uction"]))
    elif kind == "secure":
        good = st.one_of(st.text(min_size=1, max_size=12), st.sampled_from(["s3cr3t", "pässwört", " ", "x" * 100]))
    elif kind == "challenge":
        good = st.one_of(st.text(max_size=12), st.binary(max_size=8), st.sampled_from(["", "hunter2", b"\xff"]))
    elif kind == "any":
        good = junk()
    elif kind == "list":
        item = spec.get("item")
        if item and depth > 0:
            iv = values(item, depth - 1)
        else:
            iv = st.one_of(st.integers(-3, 3), st.text(max_size=3), st.none(), st.booleans())
        good = st.one_of(st.lists(iv, max_size=4), st.lists(iv, max_size=4), st.lists(iv, max_size=3).map(tuple), J([]),
                         st.sampled_from(["ab", b"ab", {"a": 1}, {1, 2}, 5, None]))
    elif kind == "dict":
        kf, vf = spec.get("keyf"), spec.get("valuef")
        kv = values(kf, 0) if kf and depth > 0 else st.one_of(st.text(max_size=3), st.sampled_from(["a", "b", "k1"]))
        vv = values(vf, depth - 1) if vf and depth > 0 else st.one_of(st.integers(-3, 3), st.text(max_size=3), st.none())
        kv = kv.filter(_hashable)
        good = st.one_of(st.dictionaries(kv, vv, max_size=3), st.dictionaries(kv, vv, max_size=3), J({}),
                         st.sampled_from([[("a", 1)], [], "a", (("a", 1),), None]))
    else:
        raise AssertionError(kind)
    if kind == "secure":
        # a SecureField takes any object; an int n is "encrypted" as n zero bytes (bytearray(n)), so a huge int only
        # burns minutes and gigabytes without reaching any new behaviour
        return st.one_of(good, good, good, junk().map(lambda v: v % 4096 if isinstance(v, int) and not isinstance(v, bool) else v))
    return st.one_of(good, good, good, junk())


def _hashable(x):
    try:
        hash(x)
        return True
    except TypeError:
        return False


def realize(value):
    """Turn a descriptor value into the Python object handed to the code under test."""
    if isinstance(value, Opaque):
        # "bytearray:<hex>" / "memoryview:<hex>": bytes-like objects that are not bytes (the caller's own mutable buffer)
        if value.name.startswith("bytearray:"):
            return bytearray(bytes.fromhex(value.name.split(":", 1)[1]))
        if value.name.startswith("memoryview:"):
            return memoryview(bytearray(bytes.fromhex(value.name.split(":", 1)[1])))
        # values of a proper SUBCLASS of int / float / str (an enum member, a float with units, a tagged string)
        if value.name.startswith("intenum:"):
            import enum
            return enum.IntEnum("Code", {"MEMBER": int(value.name.split(":", 1)[1])}).MEMBER
        if value.name.startswith("intsub:"):
            return type("Count", (int,), {})(int(value.name.split(":", 1)[1]))
        if value.name.startswith("floatsub:"):
            return type("Metres", (float,), {})(float(value.name.split(":", 1)[1]))
        if value.name.startswith("strsub:"):
            return type("Tagged", (str,), {})(value.name.split(":", 1)[1])
        return object()
    if isinstance(value, str):
        return subst(value)
    if isinstance(value, list):
        return [realize(v) for v in value]
    if isinstance(value, tuple):
        return tuple(realize(v) for v in value)
    if isinstance(value, dict):
        return {realize(k): realize(v) for k, v in value.items()}
    return value
