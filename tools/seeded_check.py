#!/venv/bin/python
"""Run the checks against the seeded property-breaking changes kept under /verif/seeded/<id>/.

For every seeded/<id>/ (patch.diff, demo.py, meta.json {"property": "Cxx", ...}) on a scratch copy of /repo:
  1. demo.py passes (exit 0) without the change,
  2. the patch applies, the repository's own test suite still passes (477),
  3. demo.py fails (exit 1) with the change,
  4. the owning property's check (quick tier; --thorough for the thorough tier) exits 1 with a VIOLATION line.
Nothing is ever applied to /repo itself; the scratch copy is removed afterwards.

usage: seeded_check.py [--thorough] [--seeds 1,2] [ids...]      writes seeded/REPORT.md with --report
"""
import json
import os
import shutil
import subprocess
import sys
import tempfile
import time

ROOT = os.path.dirname(os.path.dirname(os.path.abspath(__file__)))
PY = "/venv/bin/python"
REPO = os.environ.get("VERIF_REPO_SRC", "/repo")


def sh(cmd, cwd, env=None, timeout=3600):
    e = dict(os.environ, PYTHONDONTWRITEBYTECODE="1")
    e.update(env or {})
    return subprocess.run(cmd, cwd=cwd, env=e, capture_output=True, text=True, timeout=timeout)


def run_one(sid, tier, seeds):
    sdir = os.path.join(ROOT, "seeded", sid)
    meta = json.load(open(os.path.join(sdir, "meta.json")))
    prop = meta["property"]
    out = {"id": sid, "property": prop}
    if meta.get("superseded"):
        out["status"] = "SUPERSEDED"
        out["detail"] = meta["superseded"][:150]
        return out
    scratch = tempfile.mkdtemp(prefix="ccseed-")
    home = tempfile.mkdtemp(prefix="ccseedhome-")
    try:
        for name in ("cincoconfig", "tests", "pyproject.toml"):
            src, dst = os.path.join(REPO, name), os.path.join(scratch, name)
            if os.path.isdir(src):
                shutil.copytree(src, dst, ignore=shutil.ignore_patterns("__pycache__"))
            else:
                shutil.copy(src, dst)
        shutil.copy(os.path.join(sdir, "demo.py"), os.path.join(scratch, "demo.py"))
        d0 = sh([PY, "demo.py"], scratch, {"HOME": home})
        out["demo_without"] = d0.returncode
        ap = sh(["git", "apply", "--whitespace=nowarn", os.path.join(sdir, "patch.diff")], scratch)
        if ap.returncode != 0:
            # later repairs of /repo may have shifted the context of an older seeded patch: retry with less context
            ap = sh(["git", "apply", "-C1", "--whitespace=nowarn", os.path.join(sdir, "patch.diff")], scratch)
        if ap.returncode != 0:
            out["status"] = "PATCH-DOES-NOT-APPLY"
            out["detail"] = ap.stderr.strip()[-300:]
            return out
        t = sh([PY, "-m", "pytest", "-q", "-p", "no:cacheprovider", "--timeout=900",
                "--deselect", "tests/test_schema.py::TestSchema::test_setattr_field"], scratch, {"HOME": home})
        out["suite"] = (t.stdout.strip().splitlines() or [""])[-1]
        d1 = sh([PY, "demo.py"], scratch, {"HOME": home})
        out["demo_with"] = d1.returncode
        if t.returncode != 0 or d0.returncode != 0 or d1.returncode == 0:
            out["status"] = "INVALID-SEED"
            return out
        verdicts = []
        for seed in seeds:
            t0 = time.time()
            c = sh([PY, os.path.join(ROOT, "check.py"), prop, "--tier", tier], ROOT,
                   {"VERIF_REPO": scratch, "VERIF_SEED": str(seed), "VERIF_NO_SHRINK": "1"})
            fails = [l for l in c.stdout.splitlines() if l.startswith("FAIL")]
            import re
            hits = sum(int(m.group(1)) for m in (re.search(r"\(x(\d+)\)", l) for l in fails) if m)
            verdicts.append({"seed": seed, "exit": c.returncode, "first": fails[0][:220] if fails else c.stdout.strip()[-160:], "wall_s": round(time.time() - t0, 1),
                             "signatures": len(fails), "hits": hits})
        out["runs"] = verdicts
        caught = [v for v in verdicts if v["exit"] == 1]
        out["status"] = "CAUGHT" if len(caught) == len(verdicts) else "CAUGHT-SOME-SEEDS" if caught else "MISSED"
        return out
    finally:
        shutil.rmtree(scratch, ignore_errors=True)
        shutil.rmtree(home, ignore_errors=True)


def main():
    args = [a for a in sys.argv[1:] if not a.startswith("--")]
    tier = "thorough" if "--thorough" in sys.argv else "quick"
    seeds = [1]
    for a in sys.argv[1:]:
        if a.startswith("--seeds="):
            seeds = [int(x) for x in a.split("=", 1)[1].split(",")]
    ids = sorted(d for d in os.listdir(os.path.join(ROOT, "seeded")) if os.path.isdir(os.path.join(ROOT, "seeded", d)))
    if args:
        ids = [i for i in ids if i in args or i.split("-")[0] in args]
    from concurrent.futures import ThreadPoolExecutor
    with ThreadPoolExecutor(max_workers=int(os.environ.get("SEED_JOBS", "4"))) as ex:
        results = list(ex.map(lambda i: run_one(i, tier, seeds), ids))
    for r in results:
        first = (r.get("runs") or [{}])[0].get("first", r.get("detail", ""))
        run0 = (r.get("runs") or [{}])[0]
        print("%-34s %-4s %-18s sigs=%-3s hits=%-5s %s" % (r["id"], r["property"], r["status"], run0.get("signatures", "-"), run0.get("hits", "-"), first[:150]))
    if "--report" in sys.argv:
        with open(os.path.join(ROOT, "seeded", "REPORT.md"), "w") as fp:
            fp.write("# Seeded changes vs checks (%s tier, seeds %s)\n\n| seeded change | property | verdict | failing signatures / cases | first failing clause |\n|---|---|---|---|---|\n" % (tier, seeds))
            for r in results:
                run0 = (r.get("runs") or [{}])[0]
                first = run0.get("first", r.get("detail", ""))
                fp.write("| %s | %s | %s | %s / %s | %s |\n" % (r["id"], r["property"], r["status"], run0.get("signatures", "-"), run0.get("hits", "-"), first.replace("|", "\\|")[:200]))
    return 0 if all(r["status"] in ("CAUGHT", "SUPERSEDED") for r in results) else 1


if __name__ == "__main__":
    sys.exit(main())
