#!/venv/bin/python
"""Import a sub-agent's seeded change from its scratch worktree into /verif/seeded/<id>/ (patch.diff, demo.py, meta.json)."""
import json
import os
import shutil
import sys

ROOT = os.path.dirname(os.path.dirname(os.path.abspath(__file__)))


def main():
    wt, prop, name = sys.argv[1], sys.argv[2], sys.argv[3]
    needs = sys.argv[4] if len(sys.argv) > 4 else ""
    sid = "%s-%s" % (prop, name)
    dst = os.path.join(ROOT, "seeded", sid)
    os.makedirs(dst, exist_ok=True)
    shutil.copy(os.path.join(wt, "PATCH.diff"), os.path.join(dst, "patch.diff"))
    shutil.copy(os.path.join(wt, "demo.py"), os.path.join(dst, "demo.py"))
    notes = open(os.path.join(wt, "META.txt")).read() if os.path.exists(os.path.join(wt, "META.txt")) else ""
    meta = {"property": prop, "origin": "independent sub-agent given only the property text and a scratch worktree",
            "needs_to_manifest": needs, "author_notes": notes,
            "confirmed_by": "tools/seeded_check.py: demo passes without / fails with the change, repo suite 477 passed with it"}
    with open(os.path.join(dst, "meta.json"), "w") as fp:
        json.dump(meta, fp, indent=1)
    print(sid)


if __name__ == "__main__":
    main()
