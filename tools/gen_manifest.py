#!/venv/bin/python
"""Regenerate MANIFEST.json from the property modules that exist (vlib/props/cXX.py)."""
import importlib
import json
import os
import sys

ROOT = os.path.dirname(os.path.dirname(os.path.abspath(__file__)))
sys.path.insert(0, ROOT)
os.environ.setdefault("VERIF_MANIFEST_ONLY", "1")

BASELINE = ("cd /repo && /venv/bin/python -m pytest -ra -q -p no:cacheprovider --timeout=900 "
            "--continue-on-collection-errors")

SETUP = ("(/venv/bin/python -c 'import hypothesis, yaml, bson, cryptography' 2>/dev/null || "
         "/venv/bin/pip install --no-index --find-links /opt/veriftools/wheels hypothesis) && "
         "(PYTHONPATH=/verif/.deps /venv/bin/python -c 'import atheris' 2>/dev/null || "
         "/venv/bin/pip install -q --no-index --find-links /opt/veriftools/wheels --target /verif/.deps atheris || true)")

NOT_APPLICABLE = {}


def main():
    props = [json.loads(line) for line in open(os.path.join(ROOT, "properties.jsonl"))]
    checks, na = [], []
    for p in props:
        pid = p["id"]
        path = os.path.join(ROOT, "vlib", "props", pid.lower() + ".py")
        if not os.path.exists(path):
            na.append({"property_id": pid, "reason": NOT_APPLICABLE.get(
                pid, "check not built yet in this revision of /verif (design in DESIGN.md §4); nothing is claimed")})
            continue
        mod = importlib.import_module("vlib.props." + pid.lower())
        checks.append({
            "property_id": pid,
            "quick_cmd": "/venv/bin/python check.py %s --tier quick" % pid,
            "thorough_cmd": "/venv/bin/python check.py %s --tier thorough" % pid,
            "evidence_file": "evidence/%s.json" % pid,
            "replay_cmd_template": "/venv/bin/python check.py %s --replay {path}" % pid,
            "engine": "hypothesis-descriptor-runner",
            "level_claimed": {
                "category": mod.LEVEL,
                "text": mod.LEVEL_TEXT,
                "design_ref": mod.DESIGN_REF,
            },
            "level_note": mod.LEVEL_NOTE,
            "technique": mod.TECHNIQUE,
        })
    manifest = {
        "version": 1,
        "setup_cmd": SETUP,
        "hooks": {
            "guard": "CINCOCONFIG_VERIF",
            "enable": "no source hooks are needed: every observation point is public API, attributes, files or "
                      "sys.audit events; checks import /repo's working tree directly (pure Python, nothing to build)",
            "baseline_off_cmd": BASELINE,
            "source_commits": [],
            "add_only": True,
        },
        "engines": [{
            "name": "hypothesis-descriptor-runner",
            "path": "check.py",
            "serves_properties": [c["property_id"] for c in checks],
            "kind_free_text": "Hypothesis 6.168 generates plain-data case descriptors (schema specs, op histories, "
                              "values, fault plans); per-property interpreters run them against the real code and an "
                              "explicit oracle; collect-then-shrink; seed-sharded over processes",
        }],
        "checks": checks,
        "not_applicable": na,
        "notes": "VERIF_SEED selects the Hypothesis seed (seed*1000+shard); VERIF_REPO (default /repo) selects the tree "
                 "under test; exit 0 held / 1 VIOLATION / 2 harness error. known_findings.json lists recorded defects.",
    }
    with open(os.path.join(ROOT, "MANIFEST.json"), "w") as fp:
        json.dump(manifest, fp, indent=1)
    print("checks: %s  not_applicable: %s" % ([c["property_id"] for c in checks], [n["property_id"] for n in na]))


if __name__ == "__main__":
    main()
