#!/venv/bin/python
"""Sensitivity check: apply a property-breaking mutant to a scratch copy of /repo, confirm the repo's own
test suite still passes (477), run the owning quick check against the copy and expect a VIOLATION.

usage: mutation_check.py [--keep-going] [--tier quick] [ids or property ids ...]
Mutants live in mutants/*.json: {"id", "property", "file", "old", "new", "note"} (exact text replacement,
must match exactly once) or {"id", "property", "patch": "file.diff"} (git apply).
"""
import glob
import json
import os
import shutil
import subprocess
import sys
import tempfile
import time

ROOT = os.path.dirname(os.path.dirname(os.path.abspath(__file__)))
PY = "/venv/bin/python"


def load():
    out = []
    for path in sorted(glob.glob(os.path.join(ROOT, "mutants", "*.json"))):
        with open(path) as fp:
            data = json.load(fp)
        out.extend(data if isinstance(data, list) else [data])
    return out


def run_one(m, tier, seed):
    scratch = tempfile.mkdtemp(prefix="ccmut-")
    try:
        for name in ("cincoconfig", "tests", "pyproject.toml"):
            src = os.path.join(os.environ.get("VERIF_REPO_SRC", "/repo"), name)
            dst = os.path.join(scratch, name)
            if os.path.isdir(src):
                shutil.copytree(src, dst, ignore=shutil.ignore_patterns("__pycache__"))
            else:
                shutil.copy(src, dst)
        if "patch" in m:
            subprocess.run(["git", "apply", "--unsafe-paths", "--directory", scratch, os.path.join(ROOT, m["patch"])],
                           check=True, cwd=scratch)
        else:
            edits = m.get("edits") or [m]
            for e in edits:
                path = os.path.join(scratch, e["file"])
                text = open(path).read()
                if text.count(e["old"]) != 1:
                    return {"id": m["id"], "status": "BAD-MUTANT", "detail": "old text occurs %d times in %s" % (text.count(e["old"]), e["file"])}
                open(path, "w").write(text.replace(e["old"], e["new"]))
        env = dict(os.environ, PYTHONDONTWRITEBYTECODE="1")
        t = subprocess.run([PY, "-m", "pytest", "-q", "-p", "no:cacheprovider", "-x", "--timeout=900",
                            "--deselect", "tests/test_schema.py::TestSchema::test_setattr_field"],
                           cwd=scratch, env=env, capture_output=True, text=True)
        tail = t.stdout.strip().splitlines()[-1] if t.stdout.strip() else ""
        if t.returncode != 0:
            return {"id": m["id"], "status": "KILLED-BY-SUITE", "detail": tail}
        t0 = time.time()
        env = dict(os.environ, VERIF_REPO=scratch, VERIF_SEED=str(seed), VERIF_NO_SHRINK="1")
        c = subprocess.run([PY, os.path.join(ROOT, "check.py"), m["property"], "--tier", tier],
                           cwd=ROOT, env=env, capture_output=True, text=True)
        fails = [l for l in c.stdout.splitlines() if l.startswith("FAIL")]
        status = {0: "MISSED", 1: "CAUGHT"}.get(c.returncode, "HARNESS-ERROR(%d)" % c.returncode)
        detail = (fails[0][:200] if fails else (c.stderr.strip().splitlines()[-1][:300] if c.stderr.strip() else c.stdout.strip()[-200:]))
        return {"id": m["id"], "status": status, "detail": detail, "suite": tail, "wall_s": round(time.time() - t0, 1)}
    finally:
        shutil.rmtree(scratch, ignore_errors=True)


def main():
    args = [a for a in sys.argv[1:] if not a.startswith("--")]
    tier = "quick"
    seed = int(os.environ.get("VERIF_SEED", "1"))
    muts = load()
    if args:
        muts = [m for m in muts if m["id"] in args or m["property"] in args]
    from concurrent.futures import ThreadPoolExecutor
    with ThreadPoolExecutor(max_workers=int(os.environ.get("MUT_JOBS", "4"))) as ex:
        results = list(ex.map(lambda m: run_one(m, tier, seed), muts))
    bad = 0
    for m, r in zip(muts, results):
        print("%-28s %-4s %-16s %s" % (r["id"], m["property"], r["status"], r.get("detail", "")))
        if r["status"] != "CAUGHT":
            bad += 1
    if "--report" in sys.argv:
        with open(os.path.join(ROOT, "mutants", "REPORT.md"), "w") as fp:
            fp.write("# Mutant sensitivity report (quick tier, seed %d)\n\n| mutant | property | result | first failing clause | note |\n|---|---|---|---|---|\n" % seed)
            for m, r in zip(muts, results):
                fp.write("| %s | %s | %s | %s | %s |\n" % (r["id"], m["property"], r["status"], r.get("detail", "").replace("|", "\\|")[:160], m.get("note", "")))
    return 1 if bad else 0


if __name__ == "__main__":
    sys.exit(main())
