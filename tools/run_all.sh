#!/bin/bash
# run every check's quick tier (or $1 = thorough) on the unchanged tree; print one line per property
# IDS="12 13 02" restricts / orders the properties
cd "$(dirname "$0")/.."
tier=${1:-quick}
for i in ${IDS:-01 02 03 04 05 06 07 08 09 10 11 12 13 14 15 16 17 18 19 20}; do
  out=$(/venv/bin/python check.py C$i --tier $tier 2>&1); code=$?
  echo "C$i exit=$code $(echo "$out" | grep -v '^KNOWN-FINDING' | tail -1 | cut -c1-200)"
  if [ $code -ne 0 ]; then echo "$out" | grep -E '^(FAIL|VIOLATION|HARNESS|INCONCLUSIVE)' | head -8 | cut -c1-400; fi
done
